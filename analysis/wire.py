"""E1.7b wire summaries: VPES regions + a token alphabet of codec primitives.

summary(fn, shapes) walks the sigma-region of `fn` (shapes fix the variant of enum-typed parameters), and returns
the ordered list of *wire tokens* of the calls inside it, expanding local helper functions (depth-limited, memoised)
and passing constant shapes through calls (`encode(&Value::Fixed(..), &Schema::Fixed(..), w)` contributes the summary
of (Fixed, Fixed)). Tokens are decided by the resolved callee path (never by source text):

  INT / LONG            zig-zag varint of 32 / 64 bit class      (util::zig_i32|zag_i32, util::zig_i64|zag_i64)
  RAW:<n> / RAW:VAR     raw bytes moved to/from the stream, n = static length of the buffer when known
  F32LE F64LE (..BE)    float <-> bytes conversion and its byte order (core f32/f64 to_/from_*_bytes)
  U32LE (..BE)          u32 <-> bytes (duration.rs)
  BE2C / LE2C           BigInt <-> two's-complement bytes and its byte order (num_bigint)
  UUIDTXT / UUIDBIN     Uuid <-> hyphenated text / 16 raw bytes
  DUR                   Duration <-> [u8; 12]
  BIGDEC                serialize_big_decimal / deserialize_big_decimal (checked separately)
  UTF8                  String::from_utf8 (reader side only)
  BLOCKHDR              decode_seq_len / read_block_header (array/map block header reader)
  RECUR(<what>)         recursive encode/decode of a sub-schema that is not a constant shape

Each token carries: loop depth inside the region, and whether it can reach a non-error exit.
"""
import re
from collections import deque
from mir import callee_names, op_local, rv_operands
from vpes import Vpes

LEAF = {
    "util::zig_i32": "INT", "util::zag_i32": "INT",
    "util::zig_i64": "LONG", "util::zag_i64": "LONG",
    "bigdecimal::serialize_big_decimal": "BIGDEC", "bigdecimal::deserialize_big_decimal": "BIGDEC",
    "uuid::Uuid::parse_str": "UUIDTXT", "uuid::Uuid::try_parse": "UUIDTXT",
    "uuid::Uuid::as_bytes": "UUIDBIN", "uuid::Uuid::from_slice": "UUIDBIN", "uuid::Uuid::from_bytes": "UUIDBIN", "uuid::Uuid::into_bytes": "UUIDBIN",
    "uuid::Uuid::to_bytes_le": "UUIDBIN_LE", "uuid::Uuid::from_bytes_le": "UUIDBIN_LE", "uuid::Uuid::from_slice_le": "UUIDBIN_LE",
    "std::string::String::from_utf8": "UTF8", "std::str::from_utf8": "UTF8", "std::string::String::from_utf8_lossy": "UTF8LOSSY",
    "decode::decode_seq_len": "BLOCKHDR",
    "num_bigint::BigInt::to_signed_bytes_be": "BE2C", "num_bigint::BigInt::from_signed_bytes_be": "BE2C",
    "num_bigint::BigInt::to_signed_bytes_le": "LE2C", "num_bigint::BigInt::from_signed_bytes_le": "LE2C",
    "num_bigint::BigInt::to_bytes_be": "BEMAG", "num_bigint::BigInt::from_bytes_be": "BEMAG",
    "num_bigint::BigInt::to_bytes_le": "LEMAG", "num_bigint::BigInt::from_bytes_le": "LEMAG",
}
UUIDFN = re.compile(r"^uuid::(?:\w+::)*(?:<impl uuid::Uuid>|Uuid)::(\w+)$")
UUID_TOK = {"parse_str": "UUIDTXT", "try_parse": "UUIDTXT", "as_bytes": "UUIDBIN", "from_slice": "UUIDBIN", "from_bytes": "UUIDBIN", "into_bytes": "UUIDBIN",
            "from_bytes_ref": "UUIDBIN", "to_bytes_le": "UUIDBIN_LE", "from_bytes_le": "UUIDBIN_LE", "from_slice_le": "UUIDBIN_LE", "as_u128": "UUIDU128", "from_u128": "UUIDU128",
            "simple": "UUIDSIMPLE", "as_simple": "UUIDSIMPLE", "urn": "UUIDURN", "as_urn": "UUIDURN", "braced": "UUIDBRACED", "as_braced": "UUIDBRACED"}
NUMBYTES = re.compile(r"^core::(?:f32|f64|num)::<impl (f32|f64|u32|i32|u64|i64|u16|i16)>::(to|from)_(le|be|ne)_bytes$")
RAW_WRITE = ("encode::write_all_bytes", "std::io::Write::write_all", "std::io::Write::write")
RAW_READ = ("std::io::Read::read_exact", "std::io::Read::read")
IGNORE_PREFIX = ("std::", "core::", "alloc::", "log::", "error::", "<error::", "serde_json::", "std::fmt", "hashbrown::")


class Tok:
    __slots__ = ("kind", "loop", "ok", "loc", "via", "block")

    def __init__(self, kind, loop=0, ok=True, loc="", via="", block=None):
        self.kind = kind
        self.loop = loop
        self.ok = ok
        self.loc = loc
        self.via = via
        self.block = block

    def __repr__(self):
        return self.kind + ("*" * self.loop) + ("" if self.ok else "!")


def rpo(body, region):
    """reverse post-order of the region's blocks from the entry (respects dominance)"""
    seen = set()
    order = []
    stack = [(0, iter(body.succ[0]))]
    seen.add(0)
    while stack:
        n, it = stack[-1]
        adv = False
        for s in it:
            if s in region and s not in seen:
                seen.add(s)
                stack.append((s, iter(body.succ[s])))
                adv = True
                break
        if not adv:
            order.append(n)
            stack.pop()
    order.reverse()
    return order


class Wire:
    def __init__(self, prog, crate="apache_avro", max_depth=4, extra_leaf=None):
        self.prog = prog
        self.crate = crate
        self.max_depth = max_depth
        self.leaf = dict(LEAF)
        if extra_leaf:
            self.leaf.update(extra_leaf)
        self._memo = {}
        self._vp = {}

    # ---------- shapes ----------
    def enum_params(self, body):
        """param local -> adt path, for parameters whose (referenced) type is a local enum"""
        out = {}
        for i in range(1, body.argc + 1):
            adt = body.locals[i].get("adt")
            if not adt or adt.startswith("param:") or adt == "dyn":
                continue
            try:
                a = self.prog.adt(adt, self.crate)
            except KeyError:
                continue
            # enums are shape roots themselves; structs are kept so that enum-typed *fields* (`self.schema`) can be fixed
            out[i] = adt
        return out

    def vpes(self, body):
        if body.key not in self._vp:
            self._vp[body.key] = Vpes(self.prog, body, self.enum_params(body), self.crate)
        return self._vp[body.key]

    def const_shape(self, body, op):
        """variant name when the operand is (a reference to) a freshly built enum aggregate or a promoted constant"""
        if op.get("k") == "const":
            v = body.const_info(op).get("variant")
            return v[1] if v else None
        if op.get("k") not in ("copy", "move"):
            return None
        l, projs = body.resolve_place(op["pl"])
        if [p for p in projs if p not in ("*", "&")]:
            return None
        sd = body.single_def(l)
        if sd and sd[2] == "assign":
            rv = sd[3]
            if rv["r"] == "agg" and rv.get("ak") == "adt" and rv.get("variant"):
                try:
                    if self.prog.adt(rv["adt"], self.crate)["kind"] == "Enum":
                        return rv["variant"]
                except KeyError:
                    return None
            if rv["r"] == "use" and rv["o"].get("k") == "const":
                v = body.const_info(rv["o"]).get("variant")
                return v[1] if v else None
        return None

    def buffer_kind(self, body, op):
        """static length class of a byte buffer operand: '1','4','8','12','16' or 'VAR'; plus constant content"""
        if op.get("k") == "const":
            ci = body.const_info(op)
            if "bytes" in ci:
                return str(len(ci["bytes"])), ci["bytes"]
            return "VAR", None
        l, projs = body.resolve_place(op["pl"])
        for _ in range(4):
            sd0 = body.single_def(l)
            if sd0 and sd0[2] == "call":
                t0 = sd0[3]
                n0 = callee_names(t0["func"])
                full = len(t0.get("argtys", [])) > 1 and "RangeFull" in t0["argtys"][1]
                if n0 and ((n0[0] in ("std::ops::Index::index", "std::ops::IndexMut::index_mut") and full) or n0[0].endswith(("::as_slice", "::as_mut_slice", "::as_ref", "::as_mut", "::borrow", "::deref", "::deref_mut"))) \
                        and t0["args"] and t0["args"][0].get("k") in ("copy", "move"):
                    l, projs = body.resolve_place(t0["args"][0]["pl"])
                    continue
            break
        ty = body.local_ty(l)
        m = re.search(r"\[u8; (\d+)\]", ty)
        content = None
        sd = body.single_def(l)
        if sd and sd[2] == "assign" and sd[3]["r"] == "agg" and sd[3].get("ak") == "array":
            ops = sd[3]["ops"]
            if all(o.get("k") == "const" and "int" in o for o in ops):
                content = [o["int"] for o in ops]
            return str(len(ops)), content
        if sd and sd[2] == "assign" and sd[3]["r"] == "use" and sd[3]["o"].get("k") == "const":
            ci = body.const_info(sd[3]["o"])
            if "bytes" in ci:
                return str(len(ci["bytes"])), ci["bytes"]
        if m and not any(p == "[..]" for p in projs if p.startswith("[") and p != "[..]"):
            return m.group(1), content
        return "VAR", content

    # ---------- tokens ----------
    def leaf_token(self, body, t):
        names = callee_names(t["func"])
        if not names:
            return None
        for n in reversed(names):
            if n in self.leaf:
                return self.leaf[n]
            m = NUMBYTES.match(n)
            if m:
                return (m.group(1).upper() + m.group(3).upper())
            m = UUIDFN.match(n)
            if m and m.group(1) in UUID_TOK:
                return UUID_TOK[m.group(1)]
        ga = t["func"].get("ga") or []
        if names[0] == "std::string::ToString::to_string" and ga and ga[0] == "uuid::Uuid":
            return "UUIDTXT"
        if names[0] in RAW_WRITE or names[-1] in RAW_WRITE:
            k, content = self.buffer_kind(body, t["args"][1])
            if names[0] in self.prog.bodies and names[0] != body.key:
                # a local wrapper (encode::write_all_bytes): what it does with the bytes is read from its own body
                pre = self._wrapper_prefix(names[0])
                return pre + k + ("=" + ",".join(str(x) for x in content) if content is not None and len(content) <= 2 else "")
            # `Write::write` may accept only part of the buffer: it is not the "all bytes" move the tables describe
            # (calls on a concrete Vec<u8> always take everything)
            partial = names[0] == "std::io::Write::write" and not (t.get("argtys") and "Vec<u8>" in t["argtys"][0])
            return ("RAWPARTIAL:" if partial else "RAW:") + k + ("=" + ",".join(str(x) for x in content) if content is not None and len(content) <= 2 else "")
        if names[0] in RAW_READ:
            k, content = self.buffer_kind(body, t["args"][1])
            return "RAW:" + k
        return None

    def _conv_index(self):
        if not hasattr(self, "_conv"):
            idx = {}
            for im in self.prog.facts[self.crate]["impls"]:
                tr = im.get("trait")
                if tr in ("std::convert::From", "std::convert::TryFrom"):
                    m = re.search(r" as std::convert::(?:Try)?From<(.*)>>$", im.get("trait_ref", ""))
                    if m and im["methods"]:
                        idx[(tr, m.group(1), im["self"])] = im["methods"][0]["path"]
            self._conv = idx
        return self._conv

    def relevant(self):
        """local functions from which a leaf token call is reachable (only these are worth expanding)"""
        if not hasattr(self, "_rel"):
            direct = set()
            for b in self.prog.by_crate[self.crate]:
                for bi, t in b.calls():
                    if self.leaf_token(b, t) is not None:
                        direct.add(b.key)
                        break
            # resolved calls only (the trait over-approximation of Program.callgraph would make everything relevant)
            rev = {}
            for b in self.prog.by_crate[self.crate]:
                for bi, op in b.fn_consts():
                    tgt = None
                    if "closure" in op:
                        tgt = op["closure"]
                    elif op.get("res") in self.prog.bodies:
                        tgt = op["res"]
                    elif op.get("fn") in self.prog.bodies:
                        tgt = op["fn"]
                    if tgt:
                        rev.setdefault(tgt, set()).add(b.key)
                for ch in self.prog.children.get(b.key, []):
                    rev.setdefault(ch.key, set()).add(b.key)
                for bi, t in b.calls():
                    nm = callee_names(t["func"])
                    ga = t["func"].get("ga") or []
                    if nm and len(ga) >= 2:
                        tr = {"std::convert::Into::into": "std::convert::From", "std::convert::TryInto::try_into": "std::convert::TryFrom"}.get(nm[0])
                        if tr:
                            p_ = self._conv_index().get((tr, ga[0], ga[1]))
                            if p_:
                                rev.setdefault(p_, set()).add(b.key)
            rel = set(direct)
            dq = deque(direct)
            while dq:
                x = dq.popleft()
                for p in rev.get(x, ()):
                    if p not in rel:
                        rel.add(p)
                        dq.append(p)
            self._rel = rel
        return self._rel

    def _wrapper_prefix(self, key):
        if not hasattr(self, "_wp"):
            self._wp = {}
        if key not in self._wp:
            wb = self.prog.bodies[key]
            kinds = []
            for bi, t in wb.calls():
                nm = callee_names(t["func"])
                if nm and nm[0] in ("std::io::Write::write_all", "std::io::Write::write"):
                    partial = nm[0] == "std::io::Write::write" and not (t.get("argtys") and "Vec<u8>" in t["argtys"][0])
                    kinds.append("RAWPARTIAL:" if partial else "RAW:")
            self._wp[key] = kinds[0] if len(kinds) == 1 else "RAW?:"
        return self._wp[key]

    def local_callee(self, t):
        names = callee_names(t["func"])
        for n in reversed(names):
            b = self.prog.bodies.get(n)
            if b is not None and b.crate == self.crate and b.kind != "Closure":
                return b if b.key in self.relevant() else None
        # blanket Into / TryInto / From calls that resolve to a local From / TryFrom impl
        ga = t["func"].get("ga") or []
        if names and len(ga) >= 2:
            tr = {"std::convert::Into::into": "std::convert::From", "std::convert::TryInto::try_into": "std::convert::TryFrom"}.get(names[0])
            if tr:
                p = self._conv_index().get((tr, ga[0], ga[1]))
                if p and p in self.prog.bodies:
                    return self.prog.bodies[p]
        return None

    # ---------- summaries ----------
    def summary(self, fn_key, shapes=None, depth=0, stack=()):
        """shapes: dict param_local -> variant name (top level) or full sigma dict {(local, projs): variant}.
        returns dict: tokens [Tok], constructs set((adt, variant)), exits dict, sigma_regions count"""
        body = self.prog.bodies[fn_key]
        sigma = {}
        for k, v in (shapes or {}).items():
            if isinstance(k, tuple):
                sigma[k] = v
            else:
                sigma[(k, ())] = v
        mk = (fn_key, tuple(sorted((str(k), str(v)) for k, v in sigma.items())))
        if mk in self._memo:
            return self._memo[mk]
        vp = self.vpes(body)
        sigma = {k: v for k, v in sigma.items() if k[0] in vp.roots}
        region = vp.region(sigma)
        res = self._summarise_region(body, vp, sigma, region, depth, stack + ((fn_key, frozenset(sigma.items())),))
        self._memo[mk] = res
        return res

    def _summarise_region(self, body, vp, sigma, region, depth, stack):
        order = rpo(body, region)
        loops = [(h, lb & region) for h, lb in body.loops()]
        rets = [r for r in body.return_blocks() if r in region]
        # blocks that can reach a return that is not an own-Err construction: approximate by "can reach a return"
        can_ret = set(rets)
        dq = deque(rets)
        while dq:
            x = dq.popleft()
            for p in body.pred[x]:
                if p in region and p not in can_ret:
                    can_ret.add(p)
                    dq.append(p)
        # Ok-reaching: blocks from which some Ok construction / delegated return is reachable inside the region
        ok_blocks = set()
        for bi in region:
            for st in body.blocks[bi]["stmts"]:
                if st["s"] == "assign" and st["rv"]["r"] == "agg" and st["rv"].get("adt") == "std::result::Result" and st["rv"].get("variant") == "Ok":
                    ok_blocks.add(bi)
            t = body.blocks[bi]["term"]
            if t["t"] == "call" and t["dest"]["l"] == 0 and not t["dest"]["p"]:
                nm = callee_names(t["func"])
                if nm and not nm[0].endswith("FromResidual::from_residual"):
                    ok_blocks.add(bi)
        if not body.ret.startswith("std::result::Result"):
            ok_blocks = set(rets)
        can_ok = set(ok_blocks)
        dq = deque(ok_blocks)
        while dq:
            x = dq.popleft()
            for p in body.pred[x]:
                if p in region and p not in can_ok:
                    can_ok.add(p)
                    dq.append(p)
        toks = []
        constructs = set()
        items = {}
        # parameters through which this function reaches the byte stream: generic Read/Write parameters (or refs to them)
        src = body if body.kind != "Closure" else self.prog.bodies.get(body.parent, body)
        io_gen = set(g["ty"] for g in src.raw.get("bounds", []) if g["tr"] in ("std::io::Read", "std::io::Write", "std::io::BufRead"))
        io_locals = set()
        for i in range(1, body.argc + 1):
            ty = body.locals[i]["ty"].replace("&mut ", "").replace("&", "").strip()
            if ty in io_gen:
                io_locals.add(i)

        def touches_stream(t_):
            if not io_locals:
                return True
            for a_ in t_["args"]:
                if a_.get("k") in ("copy", "move"):
                    r_ = body.resolve_place(a_["pl"])
                    if r_[0] in io_locals:
                        return True
            return False

        def is_stream_tok(k_):
            return k_.startswith(("INT", "LONG", "RAW:", "RAWPARTIAL:", "RECUR", "BLOCKHDR"))

        def stars(k, n):
            return k + "*" * n

        def norm(k):
            return "RECUR" if k.startswith("RECUR") else k
        for bi in order:
            blk = body.blocks[bi]
            for st in blk["stmts"]:
                if st["s"] != "assign":
                    continue
                rv = st["rv"]
                if rv["r"] == "agg" and rv.get("ak") == "adt" and rv.get("variant") is not None:
                    constructs.add((rv["adt"], rv["variant"], bi in can_ok))
                for o in rv_operands(rv):
                    if o.get("k") == "const" and "ctor" in o:
                        c = o["ctor"]
                        constructs.add((c.rsplit("::", 1)[0], c.rsplit("::", 1)[1], bi in can_ok))
            t = blk["term"]
            if t["t"] != "call":
                continue
            for a in t["args"]:
                if a.get("k") == "const" and "ctor" in a:
                    c = a["ctor"]
                    constructs.add((c.rsplit("::", 1)[0], c.rsplit("::", 1)[1], bi in can_ok))
            ld = sum(1 for h, lb in loops if bi in lb)
            okf = bi in can_ok
            loc = body.loc(bi)
            tk = self.leaf_token(body, t)
            if tk is not None:
                toks.append(Tok(tk, ld, okf, loc, body.path, bi))
                items.setdefault(bi, []).append(("tok", stars(tk, ld)))
                continue
            cal = self.local_callee(t)
            names = callee_names(t["func"])
            if cal is None:
                # closures passed to adapters (map / and_then / map_err ...): summarise the closure body in place
                for a in t["args"]:
                    cl = None
                    if a.get("k") == "const" and "closure" in a:
                        cl = a["closure"]
                    elif a.get("k") in ("copy", "move"):
                        sd = body.single_def(a["pl"]["l"])
                        if sd and sd[2] == "assign" and sd[3]["r"] == "agg" and sd[3].get("ak") == "closure":
                            cl = sd[3]["def"]
                    if cl and cl in self.prog.bodies and depth < self.max_depth:
                        sub = self.summary(cl, {}, depth + 1, stack)
                        for x in sub["tokens"]:
                            toks.append(Tok(x.kind, x.loop + ld, x.ok and okf, x.loc, x.via, bi))
                        if sub["paths"] is None:
                            items.setdefault(bi, []).append(("unknown", None))
                        elif sub["paths"] and sub["paths"] != {()}:
                            items.setdefault(bi, []).append(("alts", frozenset(tuple(stars(y, ld) for y in p_) for p_ in sub["paths"])))
                        constructs |= set((a_, v_, o_ and okf) for a_, v_, o_ in sub["constructs"])
                continue
            # shapes passed to the callee
            cvp = self.vpes(cal)
            sub_sigma = {}
            for i, a in enumerate(t["args"]):
                pl = i + 1
                if pl not in cvp.roots:
                    continue
                cs = self.const_shape(body, a)
                if cs is not None:
                    sub_sigma[(pl, ())] = cs
                    continue
                # pass-through of one of our own constrained roots
                if a.get("k") in ("copy", "move"):
                    r, projs = body.resolve_place(a["pl"])
                    core = tuple(p for p in projs if p not in ("*", "&"))
                    for (root, kp), var in sigma.items():
                        if root == r and kp[:len(core)] == core:
                            sub_sigma[(pl, kp[len(core):])] = var
            recursive = any(f == cal.key for f, _ in stack)
            same_frame = (cal.key, frozenset(sub_sigma.items())) in stack
            if recursive and not sub_sigma:
                what = ",".join(body.opdesc(a) for i, a in enumerate(t["args"]) if (i + 1) in cvp.roots)
                toks.append(Tok("RECUR(%s)" % what, ld, okf, loc, body.path, bi))
                items.setdefault(bi, []).append(("tok", stars("RECUR", ld)))
                continue
            if same_frame or depth >= self.max_depth:
                toks.append(Tok("RECUR(?)", ld, okf, loc, body.path, bi))
                items.setdefault(bi, []).append(("tok", stars("RECUR", ld)))
                continue
            if recursive and not all(k[0] in [kk[0] for kk in sub_sigma] for k in [(r_, ()) for r_ in cvp.roots]):
                # recursion with only part of the roots fixed (e.g. value passed through, schema not constant)
                if any((pl, ()) not in sub_sigma for pl in cvp.roots if cal.locals[pl].get("adt", "").endswith("Schema")):
                    what = ",".join(body.opdesc(a) for i, a in enumerate(t["args"]) if (i + 1) in cvp.roots)
                    toks.append(Tok("RECUR(%s)" % what, ld, okf, loc, body.path, bi))
                    items.setdefault(bi, []).append(("tok", stars("RECUR", ld)))
                    continue
            sub = self.summary(cal.key, sub_sigma, depth + 1, stack)
            if not touches_stream(t):
                # the callee is not handed the stream: it can only contribute conversions
                for x in sub["tokens"]:
                    if not is_stream_tok(x.kind):
                        toks.append(Tok(x.kind, x.loop + ld, x.ok and okf, x.loc, x.via, bi))
                if sub["paths"]:
                    alts_ = frozenset(tuple(stars(y, ld) for y in p_ if not is_stream_tok(y)) for p_ in sub["paths"])
                    if alts_ and alts_ != frozenset([()]):
                        items.setdefault(bi, []).append(("alts", alts_))
                constructs |= set((a_, v_, o_ and okf) for a_, v_, o_ in sub["constructs"])
                continue
            # a helper generic over the array length (`write_array<const N>(bytes: [u8; N])`): the call site knows N
            arr = [re.search(r"\[u8; (\d+)\]", ty) for ty in t.get("argtys", [])]
            arr = [m_.group(1) for m_ in arr if m_]
            fixn = arr[0] if len(arr) == 1 else None

            def fixlen(k_):
                return ("RAW:" + fixn + k_[len("RAW:VAR"):]) if fixn and k_.startswith("RAW:VAR") else k_
            for x in sub["tokens"]:
                toks.append(Tok(fixlen(x.kind), x.loop + ld, x.ok and okf, x.loc, x.via, bi))
            if sub["paths"] is None:
                items.setdefault(bi, []).append(("unknown", None))
            elif not sub["paths"] and cal.ret.startswith("std::result::Result"):
                # the callee cannot succeed under these shapes: no success path of the caller continues through this call
                # (a caller that handles the Err itself assigns the result to a local and branches; those are rare and are
                # treated as dead too, which only makes the summary smaller)
                items.setdefault(bi, []).append(("dead", None))
            elif sub["paths"] and sub["paths"] != {()}:
                items.setdefault(bi, []).append(("alts", frozenset(tuple(stars(fixlen(y), ld) for y in p_) for p_ in sub["paths"])))
            constructs |= set((a_, v_, o_ and okf) for a_, v_, o_ in sub["constructs"])
        ex = {"returns": bool(rets), "can_ok": bool(ok_blocks), "own_err": False, "propagates": False}
        for bi in region:
            for st in body.blocks[bi]["stmts"]:
                if st["s"] == "assign" and st["rv"]["r"] == "agg" and st["rv"].get("adt") == "std::result::Result" and st["rv"].get("variant") == "Err":
                    ex["own_err"] = True
            t = body.blocks[bi]["term"]
            if t["t"] == "call" and t["dest"]["l"] == 0 and callee_names(t["func"]) and callee_names(t["func"])[0].endswith("FromResidual::from_residual"):
                ex["propagates"] = True
        paths = self._paths(body, region, items, ok_blocks, set(rets), body.ret.startswith("std::result::Result") or body.ret.startswith("std::option::Option<std::result::Result"))
        return {"tokens": toks, "constructs": constructs, "exits": ex, "region": region, "paths": paths}

    def _paths(self, body, region, items, ok_blocks, rets, needs_ok):
        """set of token sequences over the paths entry -> return inside the region that pass an Ok construction (or a
        delegated return). Each block contributes its tokens on its first visit only and may be visited twice (so a
        loop is entered, iterated and left); None when the enumeration budget is exceeded."""
        out = set()
        budget = [300000]
        loop_body = {}
        for h, lb in body.loops():
            loop_body.setdefault(h, set()).update(lb)
        # iterative DFS: state = (block, seq, visits tuple, passed_ok)
        stack = [(0, (), (), False)]
        seen_states = set()
        while stack:
            bi, seq_, visits, okp = stack.pop()
            budget[0] -= 1
            if budget[0] < 0:
                return None
            vd = dict(visits)
            cnt = vd.get(bi, 0)
            if cnt >= 2:
                continue
            vd[bi] = cnt + 1
            seqs = [seq_]
            if cnt == 0:
                for kind, val in items.get(bi, []):
                    if kind == "tok":
                        seqs = [s_ + (val,) for s_ in seqs]
                    elif kind == "alts":
                        seqs = [s_ + a_ for s_ in seqs for a_ in val]
                    elif kind == "dead":
                        seqs = []
                    else:
                        return None
                    if len(seqs) > 4000:
                        return None
            okp2 = okp or (bi in ok_blocks)
            if bi in rets:
                if okp2 or not needs_ok:
                    for s_ in seqs:
                        out.add(s_)
                continue
            vt = tuple(sorted(vd.items()))
            for s_ in seqs:
                st_key = (bi, s_, vt, okp2)
                if st_key in seen_states:
                    continue
                seen_states.add(st_key)
                succ = []
                for nx in body.succ[bi]:
                    if nx not in region:
                        continue
                    # a loop is left only after one full iteration (its header seen twice): loops are shown with
                    # their body taken, without "zero iterations" artefact paths
                    blocked = False
                    for h, lb in loop_body.items():
                        if bi in lb and nx not in lb and vd.get(h, 0) < 2:
                            blocked = True
                    if not blocked:
                        succ.append(nx)
                for nx in succ:
                    stack.append((nx, s_, vt, okp2))
        return out

    # ---------- helpers for rules ----------
    @staticmethod
    def seq(tokens, ok_only=True, drop=()):
        return [t.kind for t in tokens if (t.ok or not ok_only) and t.kind.split(":")[0].split("=")[0] not in drop and t.kind not in drop]
