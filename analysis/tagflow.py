"""tagflow: a small path-sensitive abstract interpretation over one MIR body.

Abstract values are *tags* (opaque strings a rule attaches to the results of chosen calls, e.g. "the index of the bytes
branch") and small integer constants. They flow through copies, moves, casts, references, field / downcast projections,
tuple aggregates and a list of value-preserving callees (`Try::branch`, `Clone::clone`, ...). Two tagged values that are
compared (`<`, `>`, `Ord::min`, `Ord::max`) fork the exploration on the *order hypothesis* between their tags, and every
later comparison of the same two tags is decided consistently with it, so `(a.min(b), a < b)` is understood as
"(a, true) or (b, false)". Switches on known constants follow one edge. The state space is finite: (block, known values,
hypotheses, pending event), each explored once.

A rule supplies
  source(bi, term)        -> tag for the call's result or None
  event(bi, term, tagof)  -> None | ("set", x) | ("check", kind)     pending-event protocol, see run()
and receives the set of (pending, kind, block) observations.
"""
from mir import callee_names

TRANSPARENT = ("std::ops::Try::branch", "std::clone::Clone::clone", "std::convert::Into::into", "std::convert::From::from",
               "std::option::Option::<T>::as_ref", "std::option::Option::<T>::copied", "std::option::Option::<T>::cloned", "std::borrow::Borrow::borrow")


def _path(pl):
    return tuple(p["f"] for p in pl["p"] if isinstance(p, dict) and "f" in p)


class Env:
    __slots__ = ("v",)

    def __init__(self, v=None):
        self.v = dict(v or {})

    def read(self, pl):
        l, path = pl["l"], _path(pl)
        for k in range(len(path), -1, -1):
            x = self.v.get((l, path[:k]))
            if x is not None:
                return x
        return None

    def sub(self, pl):
        """all known (suffix -> value) below a place, plus the inherited value at the place itself"""
        l, path = pl["l"], _path(pl)
        out = {}
        for (l2, p2), x in self.v.items():
            if l2 == l and p2[:len(path)] == path:
                out[p2[len(path):]] = x
        if () not in out:
            x = self.read(pl)
            if x is not None:
                out[()] = x
        return out

    def kill(self, l, path=()):
        for k in [k for k in self.v if k[0] == l and k[1][:len(path)] == path]:
            del self.v[k]

    def write(self, pl, sub):
        l, path = pl["l"], _path(pl)
        self.kill(l, path)
        for suf, x in sub.items():
            self.v[(l, path + suf)] = x

    def frozen(self):
        return tuple(sorted(self.v.items(), key=repr))


def _cmp(op, ta, tb, hyp):
    """value of `ta op tb` under hypothesis set hyp (pairs (x, y) meaning x < y), or None when undecided"""
    if (ta, tb) in hyp:
        lt = True
    elif (tb, ta) in hyp:
        lt = False
    else:
        return None
    return {"Lt": lt, "Le": lt, "Gt": not lt, "Ge": not lt, "Eq": False, "Ne": True}.get(op)


def run(b, source, event, max_states=20000):
    """explore; returns (observations, complete) where observations is a set of (pending value, kind, block index)"""
    obs = set()
    seen = set()
    work = [(0, Env(), frozenset(), None)]
    n = 0
    while work:
        bi, env, hyp, pending = work.pop()
        key = (bi, env.frozen(), hyp, pending)
        if key in seen:
            continue
        seen.add(key)
        n += 1
        if n > max_states:
            return obs, False
        env = Env(env.v)
        forks = [(env, hyp)]
        for st in b.blocks[bi]["stmts"]:
            if st["s"] != "assign":
                continue
            nxt = []
            for env_, hyp_ in forks:
                rv = st["rv"]
                r = rv["r"]
                if r == "use" or r == "cast":
                    o = rv["o"]
                    if o.get("k") == "const":
                        env_.write(st["pl"], {(): ("int", o["int"])} if "int" in o else {})
                    elif o.get("k") in ("copy", "move"):
                        env_.write(st["pl"], env_.sub(o["pl"]))
                    else:
                        env_.write(st["pl"], {})
                    nxt.append((env_, hyp_))
                elif r == "ref":
                    env_.write(st["pl"], env_.sub(rv["pl"]))
                    nxt.append((env_, hyp_))
                elif r == "agg" and rv.get("ak") in ("tuple", "adt"):
                    sub = {}
                    for i, o in enumerate(rv.get("ops", [])):
                        if o.get("k") == "const" and "int" in o:
                            sub[(i,)] = ("int", o["int"])
                        elif o.get("k") in ("copy", "move"):
                            for suf, x in env_.sub(o["pl"]).items():
                                sub[(i,) + suf] = x
                    env_.write(st["pl"], sub)
                    nxt.append((env_, hyp_))
                elif r == "bin" and rv["op"] in ("Lt", "Le", "Gt", "Ge", "Eq", "Ne"):
                    xa = env_.read(rv["a"]["pl"]) if rv["a"].get("k") in ("copy", "move") else None
                    xb = env_.read(rv["b"]["pl"]) if rv["b"].get("k") in ("copy", "move") else None
                    if xa and xb and xa[0] == "tag" and xb[0] == "tag" and xa != xb:
                        val = _cmp(rv["op"], xa, xb, hyp_)
                        if val is None:
                            for h in ((xa, xb), (xb, xa)):
                                e2 = Env(env_.v)
                                h2 = hyp_ | {h}
                                e2.write(st["pl"], {(): ("int", int(_cmp(rv["op"], xa, xb, h2)))})
                                nxt.append((e2, h2))
                        else:
                            env_.write(st["pl"], {(): ("int", int(val))})
                            nxt.append((env_, hyp_))
                    else:
                        env_.write(st["pl"], {})
                        nxt.append((env_, hyp_))
                elif r == "un" and rv.get("op") == "Not":
                    x = env_.read(rv["a"]["pl"]) if rv["a"].get("k") in ("copy", "move") else None
                    env_.write(st["pl"], {(): ("int", 1 - x[1])} if x and x[0] == "int" and x[1] in (0, 1) else {})
                    nxt.append((env_, hyp_))
                else:
                    env_.write(st["pl"], {})
                    nxt.append((env_, hyp_))
            forks = nxt
        t = b.blocks[bi]["term"]
        for env_, hyp_ in forks:
            pend = pending
            outs = [(env_, hyp_)]
            succ = b.succ[bi]
            if t["t"] == "call":
                nm = callee_names(t["func"])

                def tagof(op, env_=env_):
                    if op.get("k") in ("copy", "move"):
                        return env_.read(op["pl"])
                    if op.get("k") == "const" and "int" in op:
                        return ("int", op["int"])
                    return None
                ev = event(bi, t, tagof)
                if ev is not None:
                    if ev[0] == "set":
                        pend = ev[1]
                    elif ev[0] == "check":
                        obs.add((pend, ev[1], bi))
                        pend = None
                tag = source(bi, t)
                if tag is not None:
                    env_.write(t["dest"], {(): ("tag", tag)})
                elif nm and nm[0] in TRANSPARENT and t["args"] and t["args"][0].get("k") in ("copy", "move"):
                    env_.write(t["dest"], env_.sub(t["args"][0]["pl"]))
                elif nm and nm[0] in ("std::cmp::Ord::min", "std::cmp::Ord::max") and len(t["args"]) == 2:
                    xa, xb = tagof(t["args"][0]), tagof(t["args"][1])
                    if xa and xb and xa[0] == "tag" and xb[0] == "tag" and xa != xb:
                        outs = []
                        want_min = nm[0].endswith("min")
                        for h in ((xa, xb), (xb, xa)):
                            if (h[1], h[0]) in hyp_:
                                continue
                            e2 = Env(env_.v)
                            smaller, larger = h
                            e2.write(t["dest"], {(): smaller if want_min else larger})
                            outs.append((e2, hyp_ | {h}))
                    elif xa and xa == xb:
                        env_.write(t["dest"], {(): xa})
                    else:
                        env_.write(t["dest"], {})
                else:
                    env_.write(t["dest"], {})
            elif t["t"] == "switch" and t["discr"].get("k") in ("copy", "move"):
                x = env_.read(t["discr"]["pl"])
                if x and x[0] == "int":
                    tg = dict(t["targets"])
                    succ = [tg.get(x[1], t["otherwise"])]
            for e2, h2 in outs:
                for s in succ:
                    work.append((s, e2, h2, pend))
    return obs, True
