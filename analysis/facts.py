"""E0 runner: produce (memoised) MIR-lite facts for the *current* working tree of the repo.

Facts are keyed by a content hash of every file that can influence the build of the two crates
analysed (avro/, avro_derive/, workspace manifests, Cargo.lock) plus the feature configuration and
the driver binary, so the same tree is extracted once and twenty checks share it, while any edit
to /repo forces a new extraction. Fails closed: no fact file => exception => check exits 2.
"""
import fcntl
import hashlib
import json
import os
import pickle
import shutil
import subprocess
import sys
import time

VERIF = os.path.dirname(os.path.dirname(os.path.abspath(__file__)))
CACHE = os.environ.get("AVROLINT_CACHE", os.path.join(VERIF, ".cache"))
DRIVER = os.path.join(VERIF, "driver", "target", "debug", "avrolint")
CRATES = ("apache_avro", "apache_avro_derive")


def repo_root():
    return os.environ.get("VERIF_REPO", "/repo")


def _hash_tree(repo):
    h = hashlib.sha256()
    roots = ["avro/src", "avro_derive/src", "avro/Cargo.toml", "avro_derive/Cargo.toml",
             "Cargo.toml", "Cargo.lock", "avro/build.rs", "avro_derive/build.rs"]
    files = []
    for r in roots:
        p = os.path.join(repo, r)
        if os.path.isdir(p):
            for dp, dn, fn in os.walk(p):
                dn.sort()
                for f in sorted(fn):
                    files.append(os.path.join(dp, f))
        elif os.path.isfile(p):
            files.append(p)
    for f in files:
        h.update(os.path.relpath(f, repo).encode())
        h.update(b"\0")
        with open(f, "rb") as fh:
            h.update(fh.read())
        h.update(b"\0")
    if os.path.exists(DRIVER):
        st = os.stat(DRIVER)
        h.update(("%d:%d" % (st.st_size, int(st.st_mtime))).encode())
    return h.hexdigest()[:20], len(files)


def sysroot():
    return subprocess.check_output(["rustc", "+nightly", "--print", "sysroot"], text=True).strip()


def ensure_driver():
    if os.path.exists(DRIVER):
        return
    env = dict(os.environ, CARGO_NET_OFFLINE="true")
    subprocess.check_call(["cargo", "build", "--offline"], cwd=os.path.join(VERIF, "driver"), env=env,
                          stdout=subprocess.DEVNULL, stderr=subprocess.DEVNULL)


def feature_args(features):
    if features == "all":
        return ["--all-features"]
    if features == "default":
        return []
    return ["--no-default-features", "--features", features] if features.startswith("only:") is False else []


def extract(repo=None, features="all", verbose=False):
    """returns dict crate_name -> facts (python objects), plus '_meta'."""
    repo = repo or repo_root()
    ensure_driver()
    key, nfiles = _hash_tree(repo)
    tag = "%s-%s" % (key, features.replace(",", "+").replace(":", "_"))
    fdir = os.path.join(CACHE, "facts", tag)
    os.makedirs(os.path.join(CACHE, "facts"), exist_ok=True)
    t0 = time.time()
    pk = os.path.join(fdir, "facts.pickle")
    if not os.path.exists(pk):
        # pick a free build slot (each slot owns a cargo target dir, so patched scratch copies can be
        # analysed in parallel); slot 0 is the one setup.sh warms
        nslots = max(1, int(os.environ.get("AVROLINT_SLOTS", "4")))
        lock = None
        slot = 0
        for i in range(nslots):
            fh = open(os.path.join(CACHE, "facts", ".lock%d" % i), "w")
            try:
                fcntl.flock(fh, fcntl.LOCK_EX | fcntl.LOCK_NB)
                lock, slot = fh, i
                break
            except OSError:
                fh.close()
        if lock is None:
            lock = open(os.path.join(CACHE, "facts", ".lock0"), "w")
            fcntl.flock(lock, fcntl.LOCK_EX)
            slot = 0
        try:
            if not os.path.exists(pk):
                _build(repo, features, fdir, key, nfiles, slot, t0)
        finally:
            fcntl.flock(lock, fcntl.LOCK_UN)
            lock.close()
    with open(pk, "rb") as fh:
        out = pickle.load(fh)
    out["_meta"]["cached"] = (time.time() - t0) < 1.0
    try:
        os.utime(fdir)
    except OSError:
        pass
    return out


def _build(repo, features, fdir, key, nfiles, slot, t0):
    tmp = "%s.tmp%d" % (fdir, os.getpid())
    shutil.rmtree(tmp, ignore_errors=True)
    os.makedirs(tmp)
    target = os.path.join(CACHE, "target" if slot == 0 else "target-%d" % slot)
    os.makedirs(target, exist_ok=True)
    # cargo's freshness cache would skip the wrapper: drop the members' fingerprints
    fp = os.path.join(target, "debug", ".fingerprint")
    if os.path.isdir(fp):
        for d in os.listdir(fp):
            if d.startswith(("apache-avro", "apache_avro", "hello-wasm", "hello_wasm")):
                shutil.rmtree(os.path.join(fp, d), ignore_errors=True)
    env = dict(os.environ)
    env.update({
        "LD_LIBRARY_PATH": sysroot() + "/lib",
        "AVROLINT_OUT": tmp,
        "AVROLINT_CRATES": ",".join(CRATES),
        "RUSTFLAGS": "-Zmir-opt-level=0 -Awarnings",
        "RUSTC_WORKSPACE_WRAPPER": DRIVER,
        "CARGO_TARGET_DIR": target,
        "CARGO_NET_OFFLINE": "true",
    })
    env.pop("RUSTC_WRAPPER", None)
    cmd = ["cargo", "+nightly", "check", "--offline", "-p", "apache-avro", "-p", "apache-avro-derive"]
    cmd += feature_args(features)
    r = subprocess.run(cmd, cwd=repo, env=env, stdout=subprocess.PIPE, stderr=subprocess.STDOUT, text=True)
    if r.returncode != 0:
        sys.stderr.write(r.stdout[-6000:])
        shutil.rmtree(tmp, ignore_errors=True)
        raise RuntimeError("fact extraction: cargo check failed (the tree does not compile?)")
    out = {}
    for f in sorted(os.listdir(tmp)):
        if not f.endswith(".json") or f.endswith("-test.json"):
            continue
        with open(os.path.join(tmp, f)) as fh:
            d = json.load(fh)
        out[d["crate"]] = d
    for c in CRATES:
        if c not in out:
            shutil.rmtree(tmp, ignore_errors=True)
            raise RuntimeError("fact extraction: no fact file for crate %s (wrapper skipped?)" % c)
    out["_meta"] = {"repo": repo, "tree_hash": key, "files_hashed": nfiles, "features": features,
                    "extract_wall_s": round(time.time() - t0, 2)}
    with open(os.path.join(tmp, "facts.pickle"), "wb") as fh:
        pickle.dump(out, fh, protocol=pickle.HIGHEST_PROTOCOL)
    for f in os.listdir(tmp):
        if f.endswith(".json"):
            os.unlink(os.path.join(tmp, f))
    shutil.rmtree(fdir, ignore_errors=True)
    try:
        os.rename(tmp, fdir)
    except OSError:
        shutil.rmtree(tmp, ignore_errors=True)
    _gc(os.path.join(CACHE, "facts"), keep=120)


def _gc(d, keep):
    ents = [os.path.join(d, e) for e in os.listdir(d) if os.path.isdir(os.path.join(d, e)) and ".tmp" not in e]
    ents.sort(key=lambda p: os.stat(p).st_mtime, reverse=True)
    for p in ents[keep:]:
        shutil.rmtree(p, ignore_errors=True)


if __name__ == "__main__":
    f = extract(features=sys.argv[1] if len(sys.argv) > 1 else "all")
    print(json.dumps(f["_meta"]))
    for c in CRATES:
        print(c, len(f[c]["bodies"]), "bodies")


# ---------------------------------------------------------------------------------------------------------------
# C17: facts of a *generated* corpus crate (types deriving Serialize / Deserialize / AvroSchema), type-checked against
# the current tree of the repo through the same driver. Memoised by (tree hash, corpus source hash).
def extract_corpus(size="quick", repo=None):
    repo = repo or repo_root()
    ensure_driver()
    sys.path.insert(0, os.path.join(VERIF, "corpus"))
    import gen as corpus_gen
    src = corpus_gen.emit(size)
    key, nfiles = _hash_tree(repo)
    ch = hashlib.sha256(src.encode()).hexdigest()[:12]
    tag = "corpus-%s-%s-%s" % (key, ch, size)
    fdir = os.path.join(CACHE, "facts", tag)
    os.makedirs(os.path.join(CACHE, "facts"), exist_ok=True)
    pk = os.path.join(fdir, "facts.pickle")
    t0 = time.time()
    if not os.path.exists(pk):
        lock = open(os.path.join(CACHE, "facts", ".lockcorpus"), "w")
        fcntl.flock(lock, fcntl.LOCK_EX)
        try:
            if not os.path.exists(pk):
                work = os.path.join(CACHE, "corpus-work")
                shutil.rmtree(work, ignore_errors=True)
                os.makedirs(os.path.join(work, "src"))
                with open(os.path.join(work, "Cargo.toml"), "w") as fh:
                    fh.write('[package]\nname = "avro_verif_corpus"\nversion = "0.0.0"\nedition = "2024"\npublish = false\n\n[lib]\npath = "src/lib.rs"\n\n'
                             '[dependencies]\napache-avro = { path = "%s/avro", features = ["derive"] }\nserde = { version = "1", features = ["derive"] }\nserde_json = "1"\n\n[workspace]\n' % repo)
                shutil.copy(os.path.join(repo, "Cargo.lock"), os.path.join(work, "Cargo.lock"))
                with open(os.path.join(work, "src", "lib.rs"), "w") as fh:
                    fh.write(src)
                tmp = "%s.tmp%d" % (fdir, os.getpid())
                shutil.rmtree(tmp, ignore_errors=True)
                os.makedirs(tmp)
                target = os.path.join(CACHE, "target-corpus")
                fp = os.path.join(target, "debug", ".fingerprint")
                if os.path.isdir(fp):
                    for d in os.listdir(fp):
                        if d.startswith(("avro_verif_corpus", "avro-verif-corpus")):
                            shutil.rmtree(os.path.join(fp, d), ignore_errors=True)
                env = dict(os.environ)
                env.update({"LD_LIBRARY_PATH": sysroot() + "/lib", "AVROLINT_OUT": tmp, "AVROLINT_CRATES": "avro_verif_corpus",
                            "RUSTFLAGS": "-Zmir-opt-level=0 -Awarnings", "RUSTC_WORKSPACE_WRAPPER": DRIVER, "CARGO_TARGET_DIR": target, "CARGO_NET_OFFLINE": "true"})
                env.pop("RUSTC_WRAPPER", None)
                r = subprocess.run(["cargo", "+nightly", "check", "--offline"], cwd=work, env=env, stdout=subprocess.PIPE, stderr=subprocess.STDOUT, text=True)
                if os.path.realpath(repo) != os.path.realpath("/repo"):
                    # a scratch copy of the repository: its path-dependent packages would pile up in the shared target
                    # directory (one full copy per patched tree); drop them again, the registry dependencies stay warm
                    subprocess.run(["cargo", "+nightly", "clean", "--offline", "-p", "apache-avro", "-p", "apache-avro-derive", "-p", "avro_verif_corpus"],
                                   cwd=work, env=env, stdout=subprocess.DEVNULL, stderr=subprocess.DEVNULL)
                out = {"_meta": {"repo": repo, "tree_hash": key, "size": size, "corpus_hash": ch, "compile_ok": r.returncode == 0, "types": src.count("derive(")}}
                if r.returncode != 0:
                    # a corpus type that no longer compiles is itself a finding of the check (the derive rejects or mis-expands it)
                    out["_meta"]["compile_errors"] = [ln for ln in r.stdout.splitlines() if ln.startswith("error")][:20]
                    out["_meta"]["compile_log"] = r.stdout[-4000:]
                for f in sorted(os.listdir(tmp)):
                    if f.endswith(".json"):
                        with open(os.path.join(tmp, f)) as fh:
                            d = json.load(fh)
                        out[d["crate"]] = d
                        os.unlink(os.path.join(tmp, f))
                if r.returncode == 0 and "avro_verif_corpus" not in out:
                    shutil.rmtree(tmp, ignore_errors=True)
                    raise RuntimeError("corpus extraction: no fact file (wrapper skipped?)")
                out["_meta"]["extract_wall_s"] = round(time.time() - t0, 2)
                with open(os.path.join(tmp, "facts.pickle"), "wb") as fh:
                    pickle.dump(out, fh, protocol=pickle.HIGHEST_PROTOCOL)
                shutil.rmtree(fdir, ignore_errors=True)
                try:
                    os.rename(tmp, fdir)
                except OSError:
                    shutil.rmtree(tmp, ignore_errors=True)
        finally:
            fcntl.flock(lock, fcntl.LOCK_UN)
            lock.close()
    with open(pk, "rb") as fh:
        return pickle.load(fh)
