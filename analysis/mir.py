"""E1: analyses over MIR-lite facts: CFG, dominators, aliases, call sites, path queries."""
from collections import defaultdict, deque


def callee_names(op):
    """all names a call operand may denote: trait-level path and resolved impl path"""
    if not op or op.get("k") != "const":
        return []
    out = []
    if "fn" in op:
        out.append(op["fn"])
    if "res" in op:
        out.append(op["res"])
    return out


def place_str(pl):
    s = "_%d" % pl["l"]
    for e in pl["p"]:
        if e == "*":
            s = "(*%s)" % s
        elif isinstance(e, dict):
            if "f" in e:
                s += "." + e["n"]
            elif "d" in e:
                s = "(%s as %s)" % (s, e["d"])
            elif "ix" in e:
                s += "[_%d]" % e["ix"]
            elif "ci" in e:
                s += "[%s%d]" % ("-" if e.get("fe") else "", e["ci"])
            elif "ss" in e:
                s += "[%d..%d]" % (e["ss"], e["to"])
        else:
            s += "<%s>" % e
    return s


def proj_key(e):
    if e == "*":
        return "*"
    if isinstance(e, dict):
        if "f" in e:
            return "." + e["n"]
        if "d" in e:
            return "as " + e["d"]
        if "ix" in e:
            return "[]"
        if "ci" in e:
            return "[%d]" % e["ci"]
        if "ss" in e:
            return "[..]"
    return str(e)


TRANSPARENT_CALLS = {
    "std::ops::Deref::deref", "std::ops::DerefMut::deref_mut", "std::convert::AsRef::as_ref", "std::convert::AsMut::as_mut",
    "std::vec::Vec::<T, A>::as_slice", "std::vec::Vec::<T, A>::as_mut_slice", "std::borrow::Borrow::borrow",
    "std::borrow::BorrowMut::borrow_mut", "std::string::String::as_str", "std::string::String::as_bytes",
    "core::slice::<impl [T]>::as_ref",
}


class Body:
    def __init__(self, b, crate):
        self.raw = b
        self.crate = crate
        self.path = b["path"]
        self.kind = b["kind"]
        self.file = b["file"]
        self.line = b["line"]
        self.argc = b["argc"]
        self.locals = b["locals"]
        self.blocks = b["blocks"]
        self.parent = b.get("parent")
        self.ret = b.get("ret", "")
        self.n = len(self.blocks)
        self._succ = None
        self._pred = None
        self._dom = None
        self._pdom = None
        self._defs = None
        self._alias = {}

    # ---------- CFG ----------
    def term(self, i):
        return self.blocks[i]["term"]

    def succ_of(self, i, unwind=False):
        t = self.blocks[i]["term"]
        k = t["t"]
        out = []
        if k in ("goto", "drop", "assert"):
            out.append(t["target"])
        elif k == "call":
            if t.get("target") is not None:
                out.append(t["target"])
        elif k == "switch":
            for v, tg in t["targets"]:
                out.append(tg)
            out.append(t["otherwise"])
        if unwind and "unwind" in t:
            out.append(t["unwind"])
        seen = []
        for o in out:
            if o not in seen:
                seen.append(o)
        return seen

    @property
    def succ(self):
        if self._succ is None:
            self._succ = [self.succ_of(i) for i in range(self.n)]
        return self._succ

    @property
    def pred(self):
        if self._pred is None:
            p = [[] for _ in range(self.n)]
            for i, ss in enumerate(self.succ):
                for s in ss:
                    p[s].append(i)
            self._pred = p
        return self._pred

    def reachable(self, start=0, avoid=(), succ=None):
        succ = succ or self.succ
        avoid = set(avoid)
        if start in avoid:
            return set()
        seen = {start}
        dq = deque([start])
        while dq:
            x = dq.popleft()
            for s in succ[x]:
                if s not in seen and s not in avoid:
                    seen.add(s)
                    dq.append(s)
        return seen

    def reachable_from_set(self, starts, avoid=()):
        avoid = set(avoid)
        seen = set(s for s in starts if s not in avoid)
        dq = deque(seen)
        while dq:
            x = dq.popleft()
            for s in self.succ[x]:
                if s not in seen and s not in avoid:
                    seen.add(s)
                    dq.append(s)
        return seen

    def _dominators(self, entry_nodes, succ, pred, nodes):
        # iterative set-based dominators (bodies are small)
        dom = {}
        allset = set(nodes)
        for n_ in nodes:
            dom[n_] = set(allset)
        for e in entry_nodes:
            dom[e] = {e}
        changed = True
        order = list(nodes)
        while changed:
            changed = False
            for n_ in order:
                if n_ in entry_nodes:
                    continue
                ps = [p for p in pred[n_] if p in dom]
                if ps:
                    new = set.intersection(*[dom[p] for p in ps])
                else:
                    new = set()
                new = new | {n_}
                if new != dom[n_]:
                    dom[n_] = new
                    changed = True
        return dom

    @property
    def dom(self):
        """dom[b] = set of blocks dominating b (over the normal-edge CFG, reachable part)"""
        if self._dom is None:
            reach = self.reachable(0)
            nodes = [i for i in range(self.n) if i in reach]
            self._dom = self._dominators({0}, self.succ, self.pred, nodes)
        return self._dom

    def dominates(self, a, b):
        return b in self.dom and a in self.dom[b]

    def return_blocks(self):
        return [i for i in range(self.n) if self.blocks[i]["term"]["t"] == "return"]

    @property
    def pdom(self):
        """post-dominators w.r.t. the return blocks (diverging blocks are ignored)"""
        if self._pdom is None:
            rets = set(self.return_blocks())
            reach = self.reachable(0)
            # reverse graph
            rsucc = {i: [p for p in self.pred[i] if p in reach] for i in reach}
            rpred = {i: [s for s in self.succ[i] if s in reach] for i in reach}
            # nodes that can reach a return
            can = set(rets)
            dq = deque(rets)
            while dq:
                x = dq.popleft()
                for p in rsucc.get(x, []):
                    if p not in can:
                        can.add(p)
                        dq.append(p)
            nodes = [i for i in reach if i in can]
            rpred2 = {i: [s for s in rpred[i] if s in can] for i in nodes}
            self._pdom = self._dominators(rets, None, rpred2, nodes)
        return self._pdom

    def postdominates(self, a, b):
        return b in self.pdom and a in self.pdom[b]

    def back_edges(self):
        out = []
        for i in self.dom:
            for s in self.succ[i]:
                if s in self.dom[i]:
                    out.append((i, s))
        return out

    def in_loop(self, b):
        """is block b inside some natural loop?"""
        for (t, h) in self.back_edges():
            # loop body = nodes that can reach t without passing h, plus h
            body = {h, t}
            st = [t]
            while st:
                x = st.pop()
                if x == h:
                    continue
                for p in self.pred[x]:
                    if p not in body:
                        body.add(p)
                        st.append(p)
            if b in body:
                return True
        return False

    def loops(self):
        res = []
        for (t, h) in self.back_edges():
            body = {h, t}
            st = [t]
            while st:
                x = st.pop()
                if x == h:
                    continue
                for p in self.pred[x]:
                    if p not in body and p in self.dom:
                        body.add(p)
                        st.append(p)
            res.append((h, body))
        return res

    # ---------- statements / defs ----------
    def stmts(self):
        for bi, blk in enumerate(self.blocks):
            for si, st in enumerate(blk["stmts"]):
                yield bi, si, st

    @property
    def defs(self):
        """local -> list of (block, idx, kind, payload) for whole-local definitions.
        kind: 'assign' (payload=rvalue), 'call' (payload=term)"""
        if self._defs is None:
            d = defaultdict(list)
            for bi, si, st in self.stmts():
                if st["s"] == "assign" and not st["pl"]["p"]:
                    d[st["pl"]["l"]].append((bi, si, "assign", st["rv"]))
                elif st["s"] == "assign":
                    d[st["pl"]["l"]].append((bi, si, "partial", st))
                elif st["s"] == "setdiscr":
                    d[st["pl"]["l"]].append((bi, si, "partial", st))
            for bi in range(self.n):
                t = self.blocks[bi]["term"]
                if t["t"] == "call":
                    dst = t["dest"]
                    d[dst["l"]].append((bi, None, "call" if not dst["p"] else "partial", t))
            self._defs = d
        return self._defs

    def single_def(self, l):
        ds = [x for x in self.defs.get(l, [])]
        if len(ds) == 1 and ds[0][2] in ("assign", "call"):
            return ds[0]
        return None

    def resolve_place(self, pl, depth=0, transparent=True):
        """rewrite a place through single-assignment copies/refs so it is rooted at a parameter,
        a call result or a multiply-defined local. returns (root_local, [proj keys])"""
        l = pl["l"]
        projs = [proj_key(e) for e in pl["p"]]
        seen = set()
        while depth < 40:
            depth += 1
            if l in seen:
                break
            seen.add(l)
            if 1 <= l <= self.argc:
                break
            sd = self.single_def(l)
            if sd and sd[2] == "assign" and sd[3]["r"] == "agg" and sd[3].get("ak") == "tuple" and projs and projs[0].startswith("."):
                # `_5 = (copy _1, copy _2)`; `_5.1` is the second operand
                try:
                    idx = int(projs[0][1:])
                except ValueError:
                    idx = None
                ops = sd[3]["ops"]
                if idx is not None and idx < len(ops) and ops[idx].get("k") in ("copy", "move"):
                    src = ops[idx]["pl"]
                    l = src["l"]
                    projs = [proj_key(e) for e in src["p"]] + projs[1:]
                    seen.discard(l)
                    continue
                break
            if sd and sd[2] == "call" and transparent:
                t = sd[3]
                nm = callee_names(t["func"])
                full_range = bool(nm) and nm[0] in ("std::ops::Index::index", "std::ops::IndexMut::index_mut") and len(t.get("argtys", [])) == 2 and t["argtys"][1] == "std::ops::RangeFull"
                if nm and (nm[0] in TRANSPARENT_CALLS or full_range) and t["args"] and t["args"][0].get("k") in ("copy", "move"):
                    src = t["args"][0]["pl"]
                    l = src["l"]
                    np = [proj_key(e) for e in src["p"]]
                    # result is a reference to (part of) *arg0
                    if projs and projs[0] == "*":
                        projs = np + ["*"] + projs[1:]
                    else:
                        projs = np + projs
                    continue
                break
            if not sd or sd[2] != "assign":
                break
            rv = sd[3]
            r = rv["r"]
            if r == "use" and rv["o"].get("k") in ("copy", "move"):
                src = rv["o"]["pl"]
                l = src["l"]
                projs = [proj_key(e) for e in src["p"]] + projs
            elif r in ("ref", "rawptr"):
                src = rv["pl"]
                # &P then *  cancels
                l = src["l"]
                np = [proj_key(e) for e in src["p"]]
                if projs and projs[0] == "*":
                    projs = np + projs[1:]
                else:
                    projs = np + ["&"] + projs
            elif r == "cfd":
                src = rv["pl"]
                l = src["l"]
                projs = [proj_key(e) for e in src["p"]] + projs
            elif r == "cast" and rv["kind"] == "Transmute" and rv["o"].get("k") in ("copy", "move") and projs and projs[0] == "*" \
                    and [proj_key(e) for e in rv["o"]["pl"]["p"]][-2:] == [".0", ".pointer"]:
                # elaborated Box deref: `_p = transmute(box.0.pointer); (*_p)` is `*box`
                src = rv["o"]["pl"]
                l = src["l"]
                projs = [proj_key(e) for e in src["p"]][:-2] + projs
            elif r == "cast" and rv["kind"] in ("PointerCoercion", "PtrToPtr") and rv["o"].get("k") in ("copy", "move"):
                src = rv["o"]["pl"]
                l = src["l"]
                projs = [proj_key(e) for e in src["p"]] + projs
            else:
                break
        # normalise "&" followed by "*"
        out = []
        for p in projs:
            if p == "*" and out and out[-1] == "&":
                out.pop()
            else:
                out.append(p)
        return l, out

    def resolve_operand(self, op):
        if op.get("k") in ("copy", "move"):
            return self.resolve_place(op["pl"])
        return None

    def local_name(self, l):
        return self.locals[l].get("name")

    def local_ty(self, l):
        return self.locals[l]["ty"]

    def describe_place(self, pl):
        l, projs = self.resolve_place(pl)
        nm = self.local_name(l) or ("_%d" % l)
        return nm + "".join(projs)

    def opdesc(self, op):
        """normalised description of an operand: parameter/local name + field path, ignoring refs/derefs.
        e.g. `self.marker`, `marker`, `const:...`"""
        if op.get("k") == "const":
            if "int" in op:
                return "const:%s" % op["int"]
            if "item" in op:
                return "const:" + op["item"]
            if "fn" in op:
                return "fn:" + op["fn"]
            return "const"
        return self.pldesc(op["pl"])

    def pldesc(self, pl):
        l, projs = self.resolve_place(pl)
        nm = self.local_name(l)
        if self.kind == "Closure" and l == 1 and self.raw.get("upvars"):
            # captured variables: `(*_1).N` is upvar N; name it like the parent does (`self__field` -> self.field)
            core = [p for p in projs if p not in ("*", "&")]
            for u in self.raw["upvars"]:
                up = [proj_key(e) for e in u["pl"]["p"]]
                upc = [p for p in up if p not in ("*", "&")]
                if upc and core[:len(upc)] == upc:
                    nm = u["name"].replace("__", ".")
                    rest = core[len(upc):]
                    return nm + "".join((" " + p if p.startswith("as ") else p) for p in rest)
        if nm is None:
            sd = self.single_def(l)
            if sd and sd[2] == "call":
                cn = callee_names(sd[3]["func"])
                nm = (cn[0].split("::")[-1] + "()") if cn else "tmp"
            else:
                nm = "tmp"
        return nm + "".join((" " + p if p.startswith("as ") else p) for p in projs if p not in ("*", "&"))

    def op_root_ty(self, op):
        """type of the root local an operand resolves to (through copies, refs, coercions)"""
        if op.get("k") not in ("copy", "move"):
            return op.get("ty", "")
        l, projs = self.resolve_place(op["pl"])
        return self.local_ty(l)

    def call_result_of(self, op):
        """if operand (after copies/refs) is rooted at a local defined by exactly one call, return (block, term)"""
        if op.get("k") not in ("copy", "move"):
            return None
        l, projs = self.resolve_place(op["pl"])
        sd = self.single_def(l)
        if sd and sd[2] == "call":
            return sd[0], sd[3], projs
        return None

    # ---------- constants ----------
    def const_info(self, op):
        """what a constant operand denotes, following promoted constants (`&"lit"`, `&Codec::Null`, `&[..]`).
        returns dict with any of: str, bytes, int, strs, variant=(adt, name), item"""
        out = {}
        if op.get("k") != "const":
            return out
        for k in ("str", "bytes", "int", "strs", "ints", "item", "bits"):
            if k in op:
                out[k] = op[k]
        tc = op.get("tyconst")
        if isinstance(tc, str) and len(tc) >= 2 and tc[0] == '"' and tc[-1] == '"':
            out["str"] = tc[1:-1]
        if op.get("promoted"):
            for pr in self.raw.get("promoteds", []):
                if pr["pidx"] != op.get("pidx"):
                    continue
                for blk in pr["blocks"]:
                    for st in blk["stmts"]:
                        if st["s"] != "assign":
                            continue
                        rv = st["rv"]
                        if rv["r"] == "agg" and rv.get("ak") == "adt":
                            out.setdefault("variant", (rv["adt"], rv.get("variant")))
                            out.setdefault("variants", []).append((rv["adt"], rv.get("variant")))
                        for o in rv_operands(rv):
                            if o.get("k") == "const":
                                sub = {}
                                for k in ("str", "bytes", "int", "strs"):
                                    if k in o:
                                        sub[k] = o[k]
                                tc2 = o.get("tyconst")
                                if isinstance(tc2, str) and len(tc2) >= 2 and tc2[0] == '"':
                                    sub["str"] = tc2[1:-1]
                                if "str" in sub:
                                    out.setdefault("str", sub["str"])
                                    out.setdefault("strs_seq", []).append(sub["str"])
                                if "bytes" in sub:
                                    out.setdefault("bytes", sub["bytes"])
                                if "int" in sub:
                                    out.setdefault("ints_seq", []).append(sub["int"])
        return out

    def op_str(self, op):
        """string literal an operand denotes (directly, via a promoted `&"lit"`, or via a single-assignment local)"""
        if op.get("k") == "const":
            return self.const_info(op).get("str")
        if op.get("k") in ("copy", "move"):
            l, projs = self.resolve_place(op["pl"])
            sd = self.single_def(l)
            if sd and sd[2] == "assign" and sd[3]["r"] == "use" and sd[3]["o"].get("k") == "const":
                return self.const_info(sd[3]["o"]).get("str")
        return None

    def op_const(self, op):
        """const_info of an operand, looking through single-assignment locals / refs to constants"""
        if op.get("k") == "const":
            return self.const_info(op)
        if op.get("k") in ("copy", "move"):
            l, projs = self.resolve_place(op["pl"])
            sd = self.single_def(l)
            if sd and sd[2] == "assign" and sd[3]["r"] == "use" and sd[3]["o"].get("k") == "const":
                return self.const_info(sd[3]["o"])
        return {}

    def literals(self):
        """all string literals mentioned in the body (operands, call args, promoteds)"""
        out = []
        def visit(o):
            if o.get("k") == "const":
                ci = self.const_info(o)
                if "strs_seq" in ci:
                    out.extend(ci["strs_seq"])
                elif "str" in ci:
                    out.append(ci["str"])
                if "strs" in ci:
                    out.extend(ci["strs"])
        for bi, si, st in self.stmts():
            if st["s"] == "assign":
                for o in rv_operands(st["rv"]):
                    visit(o)
        for bi, t in self.calls():
            for a in t["args"]:
                visit(a)
        return out

    # ---------- calls ----------
    def calls(self):
        for bi in range(self.n):
            t = self.blocks[bi]["term"]
            if t["t"] == "call":
                yield bi, t

    def calls_to(self, pred):
        """pred: function(names:list[str], term) -> bool"""
        for bi, t in self.calls():
            names = callee_names(t["func"])
            if pred(names, t):
                yield bi, t

    def fn_consts(self):
        """every FnDef / closure constant mentioned anywhere (calls, args, assignments)"""
        def ops_of_rv(rv):
            r = rv["r"]
            if r in ("use", "cast", "repeat"):
                yield rv["o"]
            elif r == "bin":
                yield rv["a"]
                yield rv["b"]
            elif r == "un":
                yield rv["a"]
            elif r == "agg":
                for o in rv["ops"]:
                    yield o
        for bi, si, st in self.stmts():
            if st["s"] == "assign":
                for o in ops_of_rv(st["rv"]):
                    if o.get("k") == "const" and ("fn" in o or "closure" in o):
                        yield bi, o
                if st["rv"]["r"] == "agg" and st["rv"].get("ak") == "closure":
                    yield bi, {"k": "const", "closure": st["rv"]["def"]}
        for bi in range(self.n):
            t = self.blocks[bi]["term"]
            if t["t"] == "call":
                yield bi, t["func"]
                for a in t["args"]:
                    if a.get("k") == "const" and ("fn" in a or "closure" in a):
                        yield bi, a

    def loc(self, bi=None, ln=None):
        if ln is None and bi is not None:
            t = self.blocks[bi]["term"]
            ln = t.get("cln") if t.get("exp") and t.get("cln") else t.get("ln")
        return "%s:%s" % (self.file, ln if ln is not None else self.line)


def rv_operands(rv):
    r = rv["r"]
    if r in ("use", "cast", "repeat"):
        return [rv["o"]]
    if r == "bin":
        return [rv["a"], rv["b"]]
    if r == "un":
        return [rv["a"]]
    if r == "agg":
        return list(rv["ops"])
    return []


def rv_places(rv):
    """places read by an rvalue"""
    out = []
    for o in rv_operands(rv):
        if o.get("k") in ("copy", "move"):
            out.append(o["pl"])
    if rv["r"] in ("ref", "rawptr", "cfd", "discr"):
        out.append(rv["pl"])
    return out


class Program:
    def __init__(self, facts):
        self.facts = facts
        self.meta = facts.get("_meta", {})
        self.bodies = {}
        self.by_crate = defaultdict(list)
        for crate, d in facts.items():
            if crate.startswith("_"):
                continue
            for b in d["bodies"]:
                body = Body(b, crate)
                key = crate + "::" + b["path"] if crate != "apache_avro" else b["path"]
                body.key = key
                self.bodies[key] = body
                self.by_crate[crate].append(body)
        self.children = defaultdict(list)
        for b in self.bodies.values():
            if b.parent:
                pk = b.parent if b.crate == "apache_avro" else b.crate + "::" + b.parent
                self.children[pk].append(b)
        self._cg = None

    def avro(self):
        return self.facts["apache_avro"]

    def body(self, path):
        b = self.bodies.get(path)
        if b is None:
            raise KeyError("anchor function not found: %s" % path)
        return b

    def find(self, suffix=None, pred=None, crate="apache_avro"):
        out = []
        for b in self.by_crate[crate]:
            if suffix is not None and not (b.path == suffix or b.path.endswith("::" + suffix)):
                continue
            if pred is not None and not pred(b):
                continue
            out.append(b)
        return out

    def with_closures(self, body):
        """body + all closure bodies nested in it"""
        return [body] + list(self.children.get(body.key, []))

    def adt(self, path, crate="apache_avro"):
        for a in self.facts[crate]["adts"]:
            if a["path"] == path:
                return a
        raise KeyError("adt not found: " + path)

    def const(self, path, crate="apache_avro"):
        for c in self.facts[crate]["consts"]:
            if c["path"] == path:
                return c
        raise KeyError("const not found: " + path)

    # ---------- call graph ----------
    def callgraph(self, crate="apache_avro"):
        if self._cg is not None:
            return self._cg
        impl_methods = defaultdict(list)  # trait method path -> local impl bodies
        for im in self.facts[crate]["impls"]:
            tr = im.get("trait")
            if not tr:
                continue
            for m in im["methods"]:
                impl_methods[tr + "::" + m["name"]].append(m["path"])
        cg = defaultdict(set)
        for b in self.by_crate[crate]:
            tgt = cg[b.key]
            for bi, op in b.fn_consts():
                if "closure" in op:
                    tgt.add(op["closure"])
                    continue
                res = op.get("res")
                fn = op.get("fn")
                if res and res in self.bodies:
                    tgt.add(res)
                elif fn in self.bodies:
                    tgt.add(fn)
                elif res:
                    pass  # resolved to a non-local impl (std / dependency): no local callee
                elif fn in impl_methods:
                    # unresolved trait call: all local impls (sound over-approximation)
                    for p in impl_methods[fn]:
                        if p in self.bodies:
                            tgt.add(p)
            for ch in self.children.get(b.key, []):
                tgt.add(ch.key)
        self._cg = cg
        return cg

    def reach(self, roots):
        cg = self.callgraph()
        seen = set(roots)
        dq = deque(roots)
        while dq:
            x = dq.popleft()
            for y in cg.get(x, ()):
                if y not in seen:
                    seen.add(y)
                    dq.append(y)
        return seen


# ---------------- dataflow helpers ----------------

def op_local(o):
    if o.get("k") in ("copy", "move"):
        return o["pl"]["l"]
    return None


def forward_taint(body, seeds, through_calls=True, stop_calls=None, skip_variants=()):
    """flow-insensitive forward taint at local granularity.
    seeds: iterable of locals. A local becomes tainted when assigned from an rvalue that reads a
    tainted local, or (through_calls) when it is the destination of a call with a tainted argument.
    stop_calls(names, term) -> True means the call does not propagate (sanitizer)."""
    tainted = set(seeds)
    changed = True
    while changed:
        changed = False
        for bi, si, st in body.stmts():
            if st["s"] != "assign":
                continue
            dst = st["pl"]["l"]
            if dst in tainted:
                continue
            for pl in rv_places(st["rv"]):
                if skip_variants and any(isinstance(e, dict) and e.get("d") in skip_variants for e in pl["p"]):
                    continue
                if pl["l"] in tainted or any(isinstance(e, dict) and e.get("ix") in tainted for e in pl["p"]):
                    tainted.add(dst)
                    changed = True
                    break
        if through_calls:
            for bi, t in body.calls():
                dst = t["dest"]["l"]
                if dst in tainted:
                    continue
                if stop_calls and stop_calls(callee_names(t["func"]), t):
                    continue
                for a in t["args"]:
                    l = op_local(a)
                    if l is not None and l in tainted:
                        tainted.add(dst)
                        changed = True
                        break
    return tainted


def local_uses(body, l):
    """all reads of local l: list of (block, kind) where kind in stmt/call-arg/switch/assert/return-place"""
    uses = []
    for bi, si, st in body.stmts():
        if st["s"] == "assign":
            for pl in rv_places(st["rv"]):
                if pl["l"] == l:
                    uses.append((bi, "stmt"))
            # writes through a projection of l read l as base
            if st["pl"]["l"] == l and st["pl"]["p"]:
                uses.append((bi, "partial-write"))
    for bi in range(body.n):
        t = body.blocks[bi]["term"]
        k = t["t"]
        if k == "call":
            for a in t["args"]:
                if op_local(a) == l:
                    uses.append((bi, "arg"))
            if op_local(t["func"]) == l:
                uses.append((bi, "callee"))
        elif k == "switch":
            if op_local(t["discr"]) == l:
                uses.append((bi, "switch"))
        elif k == "assert":
            if op_local(t["cond"]) == l:
                uses.append((bi, "assert"))
    return uses


# ---------------- Result / Try edges ----------------

def result_edges(body, res_local):
    """for a local holding a Result (or passed through `?`): list of (switch block, ok target, err target).
    handles `match r {Ok/Err}`, `if let Err(e) = r`, and `r?` (Try::branch -> ControlFlow)"""
    out = []
    # locals carrying the same result (moves) and ControlFlow derived via Try::branch
    carriers = {res_local: "result"}
    changed = True
    while changed:
        changed = False
        for bi, si, st in body.stmts():
            if st["s"] == "assign" and not st["pl"]["p"] and st["rv"]["r"] == "use":
                l = op_local(st["rv"]["o"])
                if l in carriers and not st["rv"]["o"]["pl"]["p"] and st["pl"]["l"] not in carriers:
                    carriers[st["pl"]["l"]] = carriers[l]
                    changed = True
        for bi, t in body.calls():
            names = callee_names(t["func"])
            if names and names[0] == "std::ops::Try::branch" and t["args"] and op_local(t["args"][0]) in carriers:
                if not t["dest"]["p"] and t["dest"]["l"] not in carriers:
                    carriers[t["dest"]["l"]] = "cf"
                    changed = True
    discr = {}
    for bi, si, st in body.stmts():
        if st["s"] == "assign" and st["rv"]["r"] == "discr" and not st["pl"]["p"]:
            pl = st["rv"]["pl"]
            if pl["l"] in carriers and not pl["p"]:
                discr[st["pl"]["l"]] = pl["l"]
    for bi in range(body.n):
        t = body.blocks[bi]["term"]
        if t["t"] != "switch":
            continue
        l = op_local(t["discr"])
        if l not in discr:
            continue
        tg = dict((v, b_) for v, b_ in t["targets"])
        ok_t = tg.get(0)
        err_t = tg.get(1)
        if ok_t is None and err_t is not None:
            ok_t = t["otherwise"]
        if err_t is None and ok_t is not None:
            err_t = t["otherwise"]
        out.append((bi, ok_t, err_t))
    return out


def edge_only_region(body, sw, tgt):
    """blocks only reachable through edge sw->tgt; None when tgt has other predecessors"""
    if tgt is None:
        return None
    preds = set(p for p in body.pred[tgt] if p in body.dom)
    if preds != {sw}:
        return None
    return set(x for x in body.dom if tgt in body.dom[x])


def calls_named(body, *suffixes):
    out = []
    for bi, t in body.calls():
        names = callee_names(t["func"])
        if any(n == s or n.endswith("::" + s) for n in names for s in suffixes):
            out.append((bi, t))
    return out


def field_writes(body, field_suffix):
    """statements/calls that assign to a place whose description ends with field_suffix (e.g. '.num_values')"""
    out = []
    for bi, si, st in body.stmts():
        if st["s"] == "assign" and st["pl"]["p"] and body.pldesc(st["pl"]).endswith(field_suffix):
            out.append((bi, st))
    return out
