"""E1.7 VPES — variant-partitioned path summaries.

Given a function and *roots* (parameters of enum type, e.g. value: &Value, schema: &Schema),
a *shape assignment* sigma fixes the variant of each root (and of nested payload enums that the
function discriminates on, e.g. Schema::Uuid(UuidSchema::*)). The sigma-region is the set of
blocks reachable from the entry when every `switchInt(discriminant(P))` whose P is (a projection
of) a root follows only sigma's target. Everything collected inside the region (calls, variant
constructions, literals, exits) is a may-summary of the function under that shape; absence in the
region is a must-not.  The form of the source (match / if let / matches! / or-patterns / guards)
does not matter: they all lower to the same switches.
"""
from collections import deque
from mir import callee_names, op_local, rv_operands

STD_VARIANTS = {
    "std::option::Option": ["None", "Some"],
    "std::result::Result": ["Ok", "Err"],
    "std::ops::ControlFlow": ["Continue", "Break"],
    "std::cmp::Ordering": ["Less", "Equal", "Greater"],
    "serde_json::Value": ["Null", "Bool", "Number", "String", "Array", "Object"],
}


class Vpes:
    def __init__(self, prog, body, roots, crate="apache_avro"):
        """roots: dict param_local -> adt path"""
        self.prog = prog
        self.b = body
        self.roots = dict(roots)
        self.crate = crate
        self._variants = {}
        # map discr local -> key (root, projs) for switches that discriminate a root place
        self.discr_key = {}
        self.discr_adt = {}
        for bi, si, st in body.stmts():
            if st["s"] == "assign" and st["rv"]["r"] == "discr" and not st["pl"]["p"]:
                root, projs = body.resolve_place(st["rv"]["pl"])
                if root in self.roots:
                    key = (root, tuple(p for p in projs if p not in ("*", "&")))
                    self.discr_key[st["pl"]["l"]] = key
                    self.discr_adt[key] = st["rv"].get("adt")
        self.switches = {}   # block -> key
        for bi in range(body.n):
            t = body.blocks[bi]["term"]
            if t["t"] == "switch":
                l = op_local(t["discr"])
                if l in self.discr_key:
                    self.switches[bi] = self.discr_key[l]

    # ---- variant tables ----
    def variants_of(self, adt):
        if adt in self._variants:
            return self._variants[adt]
        if adt in STD_VARIANTS:
            v = STD_VARIANTS[adt]
        else:
            v = None
            for crate in ("apache_avro", "apache_avro_derive"):
                for a in self.prog.facts.get(crate, {}).get("adts", []):
                    if a["path"] == adt:
                        v = [x["name"] for x in a["variants"]]
            if v is None:
                raise KeyError("no variant table for " + str(adt))
        self._variants[adt] = v
        return v

    def keys(self):
        """all discriminated keys, top-level first"""
        return sorted(set(self.switches.values()), key=lambda k: (len(k[1]), k))

    # ---- region ----
    def succ_under(self, bi, sigma):
        b = self.b
        t = b.blocks[bi]["term"]
        if bi in self.switches:
            key = self.switches[bi]
            if key in sigma:
                names = self.variants_of(self.discr_adt[key])
                want = sigma[key]
                tg = dict(t["targets"])
                if isinstance(want, (set, frozenset, list, tuple)):
                    outs = []
                    for w in want:
                        idx = names.index(w)
                        outs.append(tg.get(idx, t["otherwise"]))
                    return sorted(set(outs))
                idx = names.index(want)
                return [tg.get(idx, t["otherwise"])]
        return b.succ[bi]

    def _reach(self, sigma, pinned):
        seen = {0}
        dq = deque([0])
        while dq:
            x = dq.popleft()
            succ = pinned[x] if x in pinned else self.succ_under(x, sigma)
            for s in succ:
                if s not in seen:
                    seen.add(s)
                    dq.append(s)
        return seen

    def region(self, sigma):
        """blocks reachable under sigma. Refinement: a switch on a plain local (e.g. the bool that `matches!(schema, ..)`
        or a match guard leaves behind) all of whose definitions inside the region assign the same constant follows
        only that constant's edge; iterated to a fixpoint (each step only removes blocks, so it terminates)."""
        b = self.b
        pinned = {}
        seen = self._reach(sigma, pinned)
        for _ in range(20):
            changed = False
            for bi in sorted(seen):
                if bi in pinned or bi in self.switches:
                    continue
                t = b.blocks[bi]["term"]
                if t["t"] != "switch":
                    continue
                l = op_local(t["discr"])
                if l is None or t["discr"]["pl"]["p"]:
                    continue
                vals = set()
                unknown = False
                for (dbi, si, kind, payload) in b.defs.get(l, []):
                    if dbi not in seen:
                        continue
                    if kind == "assign" and payload["r"] == "use" and payload["o"].get("k") == "const" and "int" in payload["o"]:
                        vals.add(payload["o"]["int"])
                    else:
                        unknown = True
                if unknown or len(vals) != 1 or (1 <= l <= b.argc):
                    continue
                v = next(iter(vals))
                tg = dict(t["targets"])
                pinned[bi] = [tg.get(v, t["otherwise"])]
                changed = True
            # classifier calls on a constrained root (`schema.name()`, `schema.is_named()` ...): when the callee returns
            # the same Option / bool variant on every path under the root's shape, the switch on its result is decided
            for bi in sorted(seen):
                if bi in pinned or bi in self.switches:
                    continue
                t = b.blocks[bi]["term"]
                if t["t"] != "switch":
                    continue
                l = op_local(t["discr"])
                if l is None:
                    continue
                val = self._classifier_value(l, sigma, seen)
                if val is None:
                    continue
                tg = dict(t["targets"])
                pinned[bi] = [tg.get(val, t["otherwise"])]
                changed = True
            if not changed:
                break
            seen = self._reach(sigma, pinned)
        return seen

    def _classifier_value(self, l, sigma, seen):
        """integer the switch discriminant local `l` must have, when it is (the discriminant of) the result of a local
        classifier function applied to a constrained root and that function returns one variant only for that shape"""
        b = self.b
        sd = b.single_def(l)
        via_discr = False
        if sd and sd[2] == "assign" and sd[3]["r"] == "discr" and not sd[3]["pl"]["p"]:
            via_discr = True
            sd = b.single_def(sd[3]["pl"]["l"])
        if not sd or sd[2] != "call" or sd[0] not in seen:
            return None
        t = sd[3]
        names = callee_names(t["func"])
        # hypothetical answers of external predicates (set by a rule, e.g. "the JSON number is an integer")
        hyp = getattr(self, "extern_bool", None)
        if hyp and names and not via_discr:
            if names[0] in hyp:
                return int(bool(hyp[names[0]]))
            if names[0] in ("std::option::Option::<T>::is_some", "std::option::Option::<T>::is_none") and t["args"]:
                cr = b.call_result_of(t["args"][0])
                if cr:
                    inner = callee_names(cr[1]["func"])
                    if inner and inner[0] in hyp:
                        some = bool(hyp[inner[0]])
                        return int(some if names[0].endswith("is_some") else not some)
        cal = None
        for n in reversed(names):
            if n in self.prog.bodies and self.prog.bodies[n].crate == self.crate and self.prog.bodies[n].kind != "Closure":
                cal = self.prog.bodies[n]
        if cal is None or cal.n > 120 or not t["args"] or cal.key == b.key:
            return None
        a0 = t["args"][0]
        if a0.get("k") not in ("copy", "move"):
            return None
        r, projs = b.resolve_place(a0["pl"])
        if r not in self.roots or [p for p in projs if p not in ("*", "&")] or (r, ()) not in sigma:
            return None
        cache = self.__dict__.setdefault("_clf", {})
        sub = dict(((1, kp), v) for (rr, kp), v in sigma.items() if rr == r)
        key = (cal.key, self.roots[r], str(sorted(sub.items())))
        if key not in cache:
            res = None
            try:
                outs = self._classifier_outs(cal, self.roots[r], sub, 0)
                if len(outs) == 1:
                    res = next(iter(outs))
            except (KeyError, RuntimeError):
                res = None
            cache[key] = res
        res = cache[key]
        if res is None or res[0] == "other":
            return None
        if res[0] == "opt" and via_discr:
            return 0 if res[1] == "None" else 1
        if res[0] == "enum" and via_discr:
            try:
                return self.variants_of(res[1][0]).index(res[1][1])
            except (KeyError, ValueError):
                return None
        if res[0] == "bool" and not via_discr:
            return res[1]
        return None

    def _classifier_outs(self, cal, root_adt, sub, depth):
        """the set of answers a small classifier function can give for a root of the given shape; a function that just hands
        on the answer of another local function applied to the same root (`self.into()`) is followed"""
        cvp = Vpes(self.prog, cal, {1: root_adt}, self.crate)
        reg = cvp.region(sub)
        outs = set()
        ret = cal.ret
        for bi in reg:
            for st in cal.blocks[bi]["stmts"]:
                if st["s"] == "assign" and st["pl"]["l"] == 0 and not st["pl"]["p"]:
                    rv = st["rv"]
                    if rv["r"] == "agg" and rv.get("adt") == "std::option::Option":
                        outs.add(("opt", rv["variant"]))
                    elif rv["r"] == "agg" and rv.get("ak") == "adt" and rv.get("variant") and not rv.get("ops"):
                        # a field-less variant of some enum (`SchemaKind::from(schema)`)
                        outs.add(("enum", (rv["adt"], rv["variant"])))
                    elif rv["r"] == "use" and rv["o"].get("k") == "const" and "int" in rv["o"] and ret == "bool":
                        outs.add(("bool", rv["o"]["int"]))
                    else:
                        outs.add(("other", None))
            tt = cal.blocks[bi]["term"]
            if tt["t"] == "call" and tt["dest"]["l"] == 0:
                nxt = None
                if depth < 3 and tt["args"] and tt["args"][0].get("k") in ("copy", "move"):
                    r_, projs_ = cal.resolve_place(tt["args"][0]["pl"])
                    if r_ == 1 and not [p for p in projs_ if p not in ("*", "&")]:
                        for n in reversed(callee_names(tt["func"])):
                            if n in self.prog.bodies and self.prog.bodies[n].crate == self.crate and self.prog.bodies[n].kind != "Closure" and self.prog.bodies[n].n <= 120 and n != cal.key:
                                nxt = self.prog.bodies[n]
                                break
                if nxt is not None:
                    outs |= self._classifier_outs(nxt, root_adt, sub, depth + 1)
                else:
                    outs.add(("other", None))
        return outs

    def nested_keys_in(self, region, sigma):
        """keys discriminated inside the region that sigma does not fix"""
        out = []
        for bi in region:
            if bi in self.switches and self.switches[bi] not in sigma:
                if self.switches[bi] not in out:
                    out.append(self.switches[bi])
        return out

    def expand(self, sigma):
        """complete a partial sigma by enumerating every unfixed key discriminated in its region
        (nested payload enums). returns list of complete sigmas"""
        out = []
        work = [dict(sigma)]
        guard = 0
        while work:
            guard += 1
            if guard > 5000:
                raise RuntimeError("vpes: too many shape combinations")
            s = work.pop()
            reg = self.region(s)
            free = self.nested_keys_in(reg, s)
            if not free:
                out.append((s, reg))
                continue
            k = sorted(free, key=lambda k: (len(k[1]), k))[0]
            for v in self.variants_of(self.discr_adt[k]):
                s2 = dict(s)
                s2[k] = v
                work.append(s2)
        return out

    # ---- summaries ----
    def shape_name(self, sigma, root):
        """e.g. 'Uuid(String)', 'Decimal(Bytes)', 'Int'"""
        top = sigma.get((root, ()))
        if top is None:
            return "?"
        nested = []
        for k, v in sorted(sigma.items()):
            if k[0] == root and k[1] and k[1][0] == "as " + top:
                nested.append(v)
        return top + ("(" + ",".join(nested) + ")" if nested else "")

    def summary(self, sigma, region=None):
        b = self.b
        reg = region if region is not None else self.region(sigma)
        calls = []
        constructs = []   # (adt, variant, block)
        lits = []
        for bi in sorted(reg):
            blk = b.blocks[bi]
            for st in blk["stmts"]:
                if st["s"] != "assign":
                    continue
                rv = st["rv"]
                if rv["r"] == "agg" and rv.get("ak") == "adt":
                    constructs.append((rv["adt"], rv.get("variant"), bi, st["pl"]["l"]))
                for o in rv_operands(rv):
                    if o.get("k") == "const":
                        if "ctor" in o:
                            constructs.append((o["ctor"].rsplit("::", 1)[0], o["ctor"].rsplit("::", 1)[1], bi, None))
                        if "str" in o:
                            lits.append(o["str"])
            t = blk["term"]
            if t["t"] == "call":
                names = callee_names(t["func"])
                calls.append((bi, names, t))
                for a in t["args"]:
                    if a.get("k") == "const":
                        if "ctor" in a:
                            constructs.append((a["ctor"].rsplit("::", 1)[0], a["ctor"].rsplit("::", 1)[1], bi, None))
                        if "str" in a:
                            lits.append(a["str"])
        # exits
        ex = {"ok": False, "own_err": False, "propagated": False, "delegated": [], "returns": False, "diverges": False}
        rets = [r for r in b.return_blocks() if r in reg]
        ex["returns"] = bool(rets)
        for (adt, var, bi, dst) in constructs:
            if adt == "std::result::Result" and dst is not None:
                if var == "Ok":
                    ex["ok"] = True
                elif var == "Err":
                    ex["own_err"] = True
        for bi, names, t in calls:
            if t["dest"]["l"] == 0 and not t["dest"]["p"]:
                if names and names[0].endswith("FromResidual::from_residual"):
                    ex["propagated"] = True
                else:
                    ex["delegated"].append(names[0] if names else "?")
        return {"region": reg, "calls": calls, "constructs": constructs, "literals": lits, "exits": ex}


def key_shapes(v, key):
    """all (sigma, region) for every variant of the enum discriminated at `key` = (root local, field path)"""
    out = []
    adt = v.discr_adt.get(key)
    if adt is None:
        return out
    for var in v.variants_of(adt):
        for s, reg in v.expand({key: var}):
            out.append((s, reg))
    return out


def top_shapes(v, root):
    """all (sigma, region) for every top-level variant of root (with nested expansion)"""
    adt = v.roots[root]
    out = []
    for var in v.variants_of(adt):
        for s, reg in v.expand({(root, ()): var}):
            out.append((s, reg))
    return out


def pair_shapes(v, r1, r2):
    out = []
    for v1 in v.variants_of(v.roots[r1]):
        for v2 in v.variants_of(v.roots[r2]):
            for s, reg in v.expand({(r1, ()): v1, (r2, ()): v2}):
                out.append((s, reg))
    return out
