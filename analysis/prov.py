"""Provenance classification of integer operands (backward slice over single definitions, with
one-to-three levels of callee return summaries and caller argument checks). Used by C05/C19/C15."""
from mir import callee_names, op_local, rv_operands

SAFE = ("CONST", "LEN", "GUARD", "LIMIT", "SAFEFIELD")

LEN_SUFFIXES = ("::len", "::size_hint", "::count", "::capacity")
PASS_THROUGH_LAST = {
    "checked_add", "checked_sub", "checked_mul", "saturating_add", "saturating_sub", "saturating_mul", "wrapping_add",
    "ok_or", "ok_or_else", "map_err", "try_from", "try_into", "into", "from", "unwrap_or", "clone", "to_owned", "branch",
    "unwrap", "expect", "abs", "unsigned_abs", "checked_neg", "cmp", "max", "pow", "next_power_of_two", "unwrap_or_default",
    "as_ref", "borrow", "deref", "copied", "cloned",
}


class Classifier:
    def __init__(self, prog, guards, limit_getters, readfns, safe_fields=(), schema_types=("schema::",)):
        self.prog = prog
        self.guards = set(guards)            # body keys
        self.limit_getters = set(limit_getters)
        self.readfns = readfns
        self.safe_fields = set(safe_fields)  # "Type.field"
        self._ret_cache = {}
        self._stack = set()

    # ---- entry points ----
    def classify(self, body, op, depth=0):
        """returns a frozenset of tags"""
        if op.get("k") == "const":
            if "int" in op or "tyconst" in op or op.get("ty", "").startswith(("usize", "u64", "u32", "i64", "i32", "u8")):
                return frozenset(["CONST"])
            return frozenset(["CONST"])
        if op.get("k") not in ("copy", "move"):
            return frozenset(["UNKNOWN:operand"])
        return self.classify_place(body, op["pl"], depth)

    def classify_place(self, body, pl, depth):
        if depth > 12:
            return frozenset(["UNKNOWN:depth"])
        l, projs = body.resolve_place(pl)
        projs = [p for p in projs if p not in ("*", "&")]
        if 1 <= l <= body.argc:
            ty = body.local_ty(l)
            if projs:
                fields = [p for p in projs if p.startswith(".")]
                bare = ty.replace("&mut ", "").replace("&", "")
                if (bare.startswith("schema::") and not bare.startswith("schema::name::")) or any(("as Fixed" == p or "as Decimal" == p) for p in projs):
                    return frozenset(["SCHEMA:%s%s" % (body.local_name(l) or "_%d" % l, "".join(projs))])
                if fields:
                    base = ty.replace("&mut ", "").replace("&", "").split("<")[0]
                    key = "%s%s" % (base, fields[-1])
                    if key in self.safe_fields:
                        return frozenset(["SAFEFIELD"])
                    return frozenset(["FIELD:%s" % key])
            return frozenset(["ARG:%d" % l])
        defs = body.defs.get(l, [])
        whole = [d for d in defs if d[2] in ("assign", "call")]
        if not whole:
            if defs:
                return frozenset(["UNKNOWN:partial-def _%d" % l])
            return frozenset(["UNKNOWN:undef _%d" % l])
        out = set()
        if len(whole) > 8:
            return frozenset(["UNKNOWN:many-defs"])
        for (bi, si, kind, payload) in whole:
            if kind == "assign":
                out |= self.classify_rvalue(body, payload, projs, depth + 1)
            else:
                out |= self.classify_call(body, bi, payload, projs, depth + 1)
        return frozenset(out)

    def classify_rvalue(self, body, rv, projs, depth):
        r = rv["r"]
        if r == "use":
            return self.classify(body, rv["o"], depth)
        if r == "cast":
            return self.classify(body, rv["o"], depth)
        if r == "bin":
            a = self.classify(body, rv["a"], depth)
            b = self.classify(body, rv["b"], depth)
            if rv["op"] in ("Eq", "Ne", "Lt", "Le", "Gt", "Ge"):
                return frozenset(["CONST"])
            if rv["op"] in ("BitAnd", "Rem") and (a == frozenset(["CONST"]) or b == frozenset(["CONST"])):
                return frozenset(["CONST"])   # masked / reduced by a constant: bounded by it
            return a | b
        if r == "un":
            if rv["op"] == "PtrMetadata":
                return frozenset(["LEN"])
            return self.classify(body, rv["a"], depth)
        if r == "agg":
            # tuple / Option::Some(x) / checked-op tuple: union of operands
            out = set()
            for o in rv["ops"]:
                out |= self.classify(body, o, depth)
            return frozenset(out) if out else frozenset(["CONST"])
        if r in ("ref", "cfd", "rawptr"):
            return self.classify_place(body, rv["pl"], depth)
        if r == "repeat":
            return frozenset(["CONST"])
        if r == "discr":
            return frozenset(["CONST"])
        return frozenset(["UNKNOWN:rvalue " + r])

    def classify_call(self, body, bi, t, projs, depth):
        names = callee_names(t["func"])
        if not names:
            return frozenset(["UNKNOWN:indirect-call"])
        prog = self.prog
        local = None
        for nm in reversed(names):
            if nm in prog.bodies:
                local = prog.bodies[nm]
                break
        if local is not None:
            if local.key in self.guards:
                return frozenset(["GUARD"])
            if local.key in self.limit_getters:
                return frozenset(["LIMIT"])
            summ = self.return_summary(local, depth)
            out = set()
            if local.key in self.readfns and "GUARD" not in summ:
                # a function that reads from the input and returns an integer that did not pass a
                # guard: the value is declared by the data
                out.add("READ")
            for tag in summ:
                if tag.startswith("ARG:"):
                    i = int(tag[4:])
                    if i - 1 < len(t["args"]):
                        out |= self.classify(body, t["args"][i - 1], depth + 1)
                    else:
                        out.add("UNKNOWN:arg")
                else:
                    out.add(tag)
            return frozenset(out)
        n0 = names[0]
        last = n0.split("::")[-1]
        if n0.startswith("std::io::Read::") or n0.startswith("std::io::BufRead::"):
            return frozenset(["READ"])
        if any(n0.endswith(s) for s in LEN_SUFFIXES):
            return frozenset(["LEN"])
        if last in ("min",) and len(t["args"]) == 2:
            a = self.classify(body, t["args"][0], depth + 1)
            b = self.classify(body, t["args"][1], depth + 1)
            if all(x in SAFE for x in a) or all(x in SAFE for x in b):
                return frozenset(["CONST"])
            return a | b
        if last in ("size_of", "size_of_val", "align_of", "in_size", "out_size"):
            return frozenset(["CONST"])
        if last in PASS_THROUGH_LAST:
            out = set()
            for a in t["args"]:
                if a.get("k") == "const" and ("fn" in a or "closure" in a):
                    continue
                out |= self.classify(body, a, depth + 1)
            return frozenset(out) if out else frozenset(["CONST"])
        return frozenset(["EXT:" + n0])

    def return_summary(self, fn, depth):
        """provenance of the value(s) a local function returns (Ok/Some payload or plain value)"""
        if fn.key in self._ret_cache:
            return self._ret_cache[fn.key]
        if fn.key in self._stack or depth > 10:
            return frozenset(["UNKNOWN:recursion " + fn.path])
        self._stack.add(fn.key)
        out = set()
        try:
            for (bi, si, kind, payload) in fn.defs.get(0, []):
                if kind == "assign":
                    rv = payload
                    if rv["r"] == "agg" and rv.get("ak") == "adt":
                        if rv.get("variant") in ("Err", "None"):
                            continue
                        for o in rv["ops"]:
                            out |= self.classify(fn, o, depth + 1)
                        if not rv["ops"]:
                            out.add("CONST")
                    else:
                        out |= self.classify_rvalue(fn, rv, [], depth + 1)
                elif kind == "call":
                    names = callee_names(payload["func"])
                    if names and names[0].endswith("FromResidual::from_residual"):
                        continue
                    out |= self.classify_call(fn, bi, payload, [], depth + 1)
                else:
                    out.add("UNKNOWN:partial return")
        finally:
            self._stack.discard(fn.key)
        res = frozenset(out) if out else frozenset(["CONST"])
        self._ret_cache[fn.key] = res
        return res


def is_safe(tags):
    return all(t in SAFE for t in tags)


def find_limit_getters(prog, static_suffix="MAX_ALLOCATION_BYTES"):
    """role: functions that reference the allocation-limit static"""
    out = []
    for b in prog.by_crate["apache_avro"]:
        hit = False
        for bi, si, st in b.stmts():
            if st["s"] == "assign":
                for o in rv_operands(st["rv"]):
                    if o.get("k") == "const" and o.get("static", "").endswith(static_suffix):
                        hit = True
        for bi, t in b.calls():
            for a in t["args"]:
                if a.get("k") == "const" and a.get("static", "").endswith(static_suffix):
                    hit = True
        if hit:
            out.append(b.key)
    return out


def find_base_guards(prog, limit_getters):
    """role: functions that call the limit getter, compare a parameter-derived value with it and
    construct Details::MemoryAllocation. returns {key: info}"""
    out = {}
    for b in prog.by_crate["apache_avro"]:
        if b.kind == "Closure":
            continue
        lim_locals = set()
        for bi, t in b.calls():
            names = callee_names(t["func"])
            if any(n in limit_getters for n in names) and not t["dest"]["p"]:
                lim_locals.add(t["dest"]["l"])
        if not lim_locals:
            continue
        mem_err = False
        for bi, si, st in b.stmts():
            if st["s"] == "assign" and st["rv"]["r"] == "agg" and st["rv"].get("adt") == "error::Details" and st["rv"].get("variant") == "MemoryAllocation":
                mem_err = True
        if not mem_err:
            continue
        # comparison between limit-derived and something else
        from mir import forward_taint
        limt = forward_taint(b, lim_locals, through_calls=False)
        cmps = []
        for bi, si, st in b.stmts():
            if st["s"] == "assign" and st["rv"]["r"] == "bin" and st["rv"]["op"] in ("Le", "Lt", "Ge", "Gt"):
                la = op_local(st["rv"]["a"])
                lb = op_local(st["rv"]["b"])
                if (la in limt) != (lb in limt):
                    cmps.append((bi, st, la in limt))
        if cmps and b.ret.startswith("std::result::Result<"):
            out[b.key] = {"body": b, "cmps": cmps, "limit_locals": lim_locals}
    return out
