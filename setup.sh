#!/bin/sh
# offline setup: build the fact-extractor driver, warm the dependency caches for the analysed crates and for the C17 corpus
set -e
cd "$(dirname "$0")"
export CARGO_NET_OFFLINE=true
(cd driver && cargo build --offline 2>&1 | tail -2)
python3 analysis/facts.py all >/dev/null
python3 -c "import sys; sys.path.insert(0, 'analysis'); import facts; m = facts.extract_corpus('quick')['_meta']; print('corpus', m['types'], 'types compile_ok', m['compile_ok'])"
echo setup ok
