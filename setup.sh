#!/bin/sh
# offline setup: build the fact-extractor driver and warm the dependency cache for the analysed crates
set -e
cd "$(dirname "$0")"
export CARGO_NET_OFFLINE=true
(cd driver && cargo build --offline 2>&1 | tail -2)
python3 analysis/facts.py all >/dev/null
echo setup ok
