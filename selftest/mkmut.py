#!/usr/bin/env python3
"""make a mutant/benign patch: mkmut.py <out.diff> <file> <old> <new> [<file> <old> <new>]...  (exact, unique substring replace)"""
import sys, subprocess, os, tempfile, shutil
out = sys.argv[1]
args = sys.argv[2:]
tmp = tempfile.mkdtemp(prefix="mkmut-", dir="/var/tmp")
try:
    a = os.path.join(tmp, "a"); b = os.path.join(tmp, "b")
    files = sorted(set(args[0::3]))
    for f in files:
        for d in (a, b):
            os.makedirs(os.path.dirname(os.path.join(d, f)), exist_ok=True)
            shutil.copy(os.path.join("/repo", f), os.path.join(d, f))
    for i in range(0, len(args), 3):
        f, old, new = args[i:i+3]
        p = os.path.join(b, f)
        s = open(p).read()
        if s.count(old) != 1:
            print("pattern occurs %d times in %s: %r" % (s.count(old), f, old)); sys.exit(2)
        open(p, "w").write(s.replace(old, new))
    r = subprocess.run(["diff", "-ruN", "a", "b"], cwd=tmp, stdout=subprocess.PIPE, text=True)
    open(out, "w").write(r.stdout)
    print("wrote", out, len(r.stdout.splitlines()), "lines")
finally:
    shutil.rmtree(tmp)
