#!/usr/bin/env python3
"""run every claimed check on every behaviour-preserving patch in selftest/benign/: all must stay silent.
usage: run_benign.py [name-substring ...]"""
import json, os, sys
from concurrent.futures import ThreadPoolExecutor
HERE = os.path.dirname(os.path.abspath(__file__))
VERIF = os.path.dirname(HERE)
sys.path.insert(0, HERE)
import mutate
PIDS = [c["property_id"] for c in json.load(open(os.path.join(VERIF, "MANIFEST.json")))["checks"]]
pats = sorted(f for f in os.listdir(os.path.join(HERE, "benign")) if f.endswith(".diff"))
if len(sys.argv) > 1:
    pats = [p for p in pats if any(a in p for a in sys.argv[1:])]

def one(p):
    res = mutate.run_on_patch(os.path.join(HERE, "benign", p), PIDS)
    bad = {}
    for pid, (rc, out) in res.items():
        if rc != 0:
            bad[pid] = (rc, [ln.strip() for ln in out.splitlines() if "violation:" in ln or "failure" in ln or "Error" in ln][:4])
    return p, bad
allok = True
with ThreadPoolExecutor(max_workers=int(os.environ.get("VERIF_SELFTEST_JOBS", "4"))) as ex:
    for p, bad in ex.map(one, pats):
        print("%-50s %s" % (p, "silent on all %d checks" % len(PIDS) if not bad else "ALARMS: %s" % bad))
        allok &= not bad
sys.exit(0 if allok else 1)
