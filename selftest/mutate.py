#!/usr/bin/env python3
"""E4: run checks against a patched scratch copy of /repo (never /repo itself).

usage: mutate.py <patch.diff> <Cxx>[,Cyy..] [--expect fire|silent] [--keep]
 - rsyncs /repo (without target/ and .git) to /var/tmp/avrolint-mut-<pid>, applies the patch with
   `patch -p1`, runs ./check for every listed property with VERIF_REPO pointing at the copy and the
   evidence written to a temp dir, prints the verdicts, removes the copy.
exit 0 if the expectation holds for every listed property.
"""
import argparse
import os
import shutil
import subprocess
import sys
import tempfile

VERIF = os.path.dirname(os.path.dirname(os.path.abspath(__file__)))


def run_on_patch(patch, pids, tier="quick", reverse=False, quiet=True):
    """returns dict pid -> (rc, stdout)"""
    src = os.environ.get("VERIF_REPO_BASE", "/repo")
    work = tempfile.mkdtemp(prefix="avrolint-mut-", dir="/var/tmp")
    ev = tempfile.mkdtemp(prefix="avrolint-ev-", dir="/var/tmp")
    try:
        subprocess.check_call(["rsync", "-a", "--exclude", "target", "--exclude", ".git", src + "/", work + "/"])
        if patch:
            cmd = ["patch", "-p1", "-s", "--no-backup-if-mismatch"] + (["-R"] if reverse else []) + ["-i", os.path.abspath(patch)]
            r = subprocess.run(cmd, cwd=work, stdout=subprocess.PIPE, stderr=subprocess.STDOUT, text=True)
            if r.returncode != 0:
                return {p: (3, "patch does not apply: " + r.stdout) for p in pids}
        out = {}
        env = dict(os.environ, VERIF_REPO=work)
        for p in pids:
            r = subprocess.run([os.path.join(VERIF, "check"), p, "--tier", tier, "--evidence-dir", ev], cwd=VERIF, env=env,
                               stdout=subprocess.PIPE, stderr=subprocess.STDOUT, text=True)
            out[p] = (r.returncode, r.stdout)
        return out
    finally:
        shutil.rmtree(work, ignore_errors=True)
        shutil.rmtree(ev, ignore_errors=True)


def main():
    ap = argparse.ArgumentParser()
    ap.add_argument("patch")
    ap.add_argument("pids")
    ap.add_argument("--expect", choices=["fire", "silent"], default="fire")
    ap.add_argument("-R", dest="reverse", action="store_true")
    ap.add_argument("-v", action="store_true")
    a = ap.parse_args()
    pids = a.pids.split(",")
    res = run_on_patch(a.patch if a.patch != "-" else None, pids, reverse=a.reverse)
    ok = True
    for p, (rc, out) in res.items():
        fired = rc == 1 and ("VIOLATION property=%s" % p) in out
        verdict = "fired" if fired else ("silent" if rc == 0 else "rc=%d" % rc)
        good = (fired if a.expect == "fire" else rc == 0)
        ok &= good
        print("%s: %s (%s)" % (p, verdict, "as expected" if good else "UNEXPECTED"))
        if a.v or not good:
            print(out[-3000:])
        else:
            for ln in out.splitlines():
                if ln.strip().startswith("violation:"):
                    print("   " + ln.strip())
    return 0 if ok else 1


if __name__ == "__main__":
    sys.exit(main())
