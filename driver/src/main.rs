// avrolint: rustc_private fact extractor. Used as RUSTC_WORKSPACE_WRAPPER under
// `cargo +nightly check`. For every workspace crate it is invoked on, it compiles the crate
// through analysis and dumps "MIR-lite" facts as JSON to $AVROLINT_OUT/<crate>-<hash>.json
// (one write per process). It decides nothing; the python rules do.
#![feature(rustc_private)]
#![allow(clippy::all)]

extern crate rustc_abi;
extern crate rustc_data_structures;
extern crate rustc_driver;
extern crate rustc_hir;
extern crate rustc_interface;
extern crate rustc_middle;
extern crate rustc_session;
extern crate rustc_span;

use rustc_driver::Compilation;
use rustc_hir::def::{CtorOf, DefKind};
use rustc_hir::def_id::{DefId, LOCAL_CRATE};
use rustc_middle::mir::*;
use rustc_middle::ty::{self, Instance, Ty, TyCtxt, TypingEnv};
use rustc_span::Span;
use std::fmt::Write as _;

mod json;
use json::J;

struct Cb;

impl rustc_driver::Callbacks for Cb {
    fn after_analysis<'tcx>(
        &mut self,
        _c: &rustc_interface::interface::Compiler,
        tcx: TyCtxt<'tcx>,
    ) -> Compilation {
        let out_dir = match std::env::var("AVROLINT_OUT") {
            Ok(d) => d,
            Err(_) => return Compilation::Continue,
        };
        let krate = tcx.crate_name(LOCAL_CRATE).to_string();
        let want = std::env::var("AVROLINT_CRATES").unwrap_or_default();
        if !want.is_empty() && !want.split(',').any(|c| c == krate) {
            return Compilation::Continue;
        }
        let facts = extract(tcx, &krate);
        let mut s = String::with_capacity(16 << 20);
        facts.write(&mut s);
        let id = tcx.stable_crate_id(LOCAL_CRATE).as_u64();
        let is_test = tcx.sess.opts.test;
        let path = format!(
            "{}/{}-{:016x}{}.json",
            out_dir,
            krate,
            id,
            if is_test { "-test" } else { "" }
        );
        std::fs::write(&path, s).expect("write facts");
        Compilation::Continue
    }
}

fn main() {
    let mut args: Vec<String> = std::env::args().collect();
    // RUSTC_WORKSPACE_WRAPPER passes the real rustc path as argv[1]
    if args.len() > 1 && (args[1].ends_with("rustc") || args[1].contains("/rustc")) {
        args.remove(1);
    }
    rustc_driver::install_ice_hook("avrolint", |_| ());
    rustc_driver::run_compiler(&args, &mut Cb);
}

fn loc(tcx: TyCtxt<'_>, sp: Span) -> (String, usize) {
    let sm = tcx.sess.source_map();
    let lo = sm.lookup_char_pos(sp.lo());
    let name = match &lo.file.name {
        rustc_span::FileName::Real(r) => match r.local_path() {
            Some(p) => p.to_string_lossy().into_owned(),
            None => format!("{:?}", r),
        },
        other => format!("{:?}", other),
    };
    (name, lo.line)
}

fn ty_s<'tcx>(ty: Ty<'tcx>) -> String {
    rustc_middle::ty::print::with_no_trimmed_paths!(format!("{}", ty))
}

fn dp(tcx: TyCtxt<'_>, d: DefId) -> String {
    rustc_middle::ty::print::with_no_trimmed_paths!(tcx.def_path_str(d))
}

fn adt_of<'tcx>(tcx: TyCtxt<'tcx>, ty: Ty<'tcx>) -> J {
    let mut t = ty;
    loop {
        match t.kind() {
            ty::Ref(_, inner, _) => t = *inner,
            ty::RawPtr(inner, _) => t = *inner,
            _ => break,
        }
    }
    match t.kind() {
        ty::Adt(a, _) => J::s(dp(tcx, a.did())),
        ty::Param(p) => J::s(format!("param:{}", p.name)),
        ty::Dynamic(..) => J::s("dyn"),
        _ => J::Null,
    }
}

struct Ex<'tcx> {
    tcx: TyCtxt<'tcx>,
}

impl<'tcx> Ex<'tcx> {
    fn place(&self, body: &Body<'tcx>, p: &Place<'tcx>) -> J {
        let tcx = self.tcx;
        let mut projs = Vec::new();
        let mut pty = PlaceTy::from_ty(body.local_decls[p.local].ty);
        for elem in p.projection.iter() {
            let j = match elem {
                ProjectionElem::Deref => J::s("*"),
                ProjectionElem::Field(f, _) => {
                    let mut name = format!("{}", f.index());
                    match pty.ty.kind() {
                        ty::Adt(adt, _) => {
                            let vi = pty.variant_index.unwrap_or(rustc_abi::FIRST_VARIANT);
                            if vi.index() < adt.variants().len() {
                                let v = adt.variant(vi);
                                if f.index() < v.fields.len() {
                                    name = v.fields[f].name.to_string();
                                }
                            }
                        }
                        _ => {}
                    }
                    J::obj(vec![("f", J::Int(f.index() as i128)), ("n", J::s(name))])
                }
                ProjectionElem::Downcast(name, vi) => {
                    let n = match name {
                        Some(s) => s.to_string(),
                        None => match pty.ty.kind() {
                            ty::Adt(adt, _) if vi.index() < adt.variants().len() => {
                                adt.variant(vi).name.to_string()
                            }
                            _ => format!("{}", vi.index()),
                        },
                    };
                    J::obj(vec![("d", J::s(n)), ("vi", J::Int(vi.index() as i128))])
                }
                ProjectionElem::Index(l) => J::obj(vec![("ix", J::Int(l.index() as i128))]),
                ProjectionElem::ConstantIndex { offset, from_end, .. } => J::obj(vec![
                    ("ci", J::Int(offset as i128)),
                    ("fe", J::Bool(from_end)),
                ]),
                ProjectionElem::Subslice { from, to, from_end } => J::obj(vec![
                    ("ss", J::Int(from as i128)),
                    ("to", J::Int(to as i128)),
                    ("fe", J::Bool(from_end)),
                ]),
                ProjectionElem::OpaqueCast(_) => J::s("opaque"),
                ProjectionElem::UnwrapUnsafeBinder(_) => J::s("unbinder"),
            };
            projs.push(j);
            pty = pty.projection_ty(tcx, elem);
        }
        J::obj(vec![("l", J::Int(p.local.index() as i128)), ("p", J::Arr(projs))])
    }

    fn read_alloc_bytes(&self, alloc_id: rustc_middle::mir::interpret::AllocId, off: u64, len: u64) -> Option<Vec<u8>> {
        use rustc_middle::mir::interpret::GlobalAlloc;
        match self.tcx.try_get_global_alloc(alloc_id)? {
            GlobalAlloc::Memory(a) => {
                let a = a.inner();
                let total = a.len() as u64;
                if off + len > total {
                    return None;
                }
                let bytes = a.inspect_with_uninit_and_ptr_outside_interpreter(off as usize..(off + len) as usize);
                Some(bytes.to_vec())
            }
            _ => None,
        }
    }

    fn read_fat_ptr(
        &self,
        alloc_id: rustc_middle::mir::interpret::AllocId,
        base: usize,
    ) -> Option<(rustc_middle::mir::interpret::AllocId, u64, u64)> {
        use rustc_middle::mir::interpret::GlobalAlloc;
        let ps = self.tcx.data_layout.pointer_size().bytes() as usize;
        let a = match self.tcx.try_get_global_alloc(alloc_id)? {
            GlobalAlloc::Memory(a) => a,
            _ => return None,
        };
        let a = a.inner();
        if base + 2 * ps > a.len() {
            return None;
        }
        let prov = a.provenance().ptrs().get(&rustc_abi::Size::from_bytes(base as u64))?;
        let raw = a.inspect_with_uninit_and_ptr_outside_interpreter(base..base + 2 * ps);
        let mut poff: u64 = 0;
        for (k, b) in raw[..ps].iter().enumerate() {
            poff |= (*b as u64) << (8 * k);
        }
        let mut len: u64 = 0;
        for (k, b) in raw[ps..].iter().enumerate() {
            len |= (*b as u64) << (8 * k);
        }
        Some((prov.alloc_id(), poff, len))
    }

    fn const_val(&self, v: &ConstValue, ty: Ty<'tcx>, out: &mut Vec<(&'static str, J)>) {
        use rustc_middle::mir::interpret::Scalar;
        let tcx = self.tcx;
        match v {
            ConstValue::Scalar(Scalar::Int(i)) => {
                let size = i.size();
                let bits = i.to_bits(size);
                let signed = matches!(ty.kind(), ty::Int(_));
                let val: i128 = if signed {
                    size.sign_extend(bits) as i128
                } else {
                    bits as i128
                };
                if matches!(ty.kind(), ty::Bool | ty::Int(_) | ty::Uint(_) | ty::Char) {
                    out.push(("int", J::Int(val)));
                } else if matches!(ty.kind(), ty::Float(_)) {
                    out.push(("bits", J::Int(bits as i128)));
                } else {
                    out.push(("raw", J::Int(bits as i128)));
                }
            }
            ConstValue::Scalar(Scalar::Ptr(ptr, _)) => {
                // pointer to an allocation: try reading pointee as bytes when type is &[u8;N] / &str-like
                let (prov, off) = ptr.into_raw_parts();
                let alloc_id = prov.alloc_id();
                let mut t = ty;
                if let ty::Ref(_, inner, _) = t.kind() {
                    t = *inner;
                }
                match t.kind() {
                    ty::Array(elem, n) if matches!(elem.kind(), ty::Uint(ty::UintTy::U8)) => {
                        if let Some(n) = n.try_to_target_usize(tcx) {
                            if let Some(b) = self.read_alloc_bytes(alloc_id, off.bytes(), n) {
                                out.push(("bytes", J::Arr(b.iter().map(|x| J::Int(*x as i128)).collect())));
                            }
                        }
                    }
                    _ => {
                        use rustc_middle::mir::interpret::GlobalAlloc;
                        match tcx.try_get_global_alloc(alloc_id) {
                            Some(GlobalAlloc::Static(d)) => out.push(("static", J::s(dp(tcx, d)))),
                            Some(GlobalAlloc::Function { instance }) => {
                                out.push(("fnptr", J::s(dp(tcx, instance.def_id()))))
                            }
                            _ => {}
                        }
                    }
                }
            }
            ConstValue::Slice { alloc_id, meta } => {
                if let Some(b) = self.read_alloc_bytes(*alloc_id, 0, *meta) {
                    let mut t = ty;
                    if let ty::Ref(_, inner, _) = t.kind() {
                        t = *inner;
                    }
                    if matches!(t.kind(), ty::Str) {
                        out.push(("str", J::s(String::from_utf8_lossy(&b).into_owned())));
                    } else {
                        out.push(("bytes", J::Arr(b.iter().map(|x| J::Int(*x as i128)).collect())));
                    }
                }
            }
            ConstValue::ZeroSized => {}
            ConstValue::Indirect { alloc_id, offset } => {
                // fat pointer (&[u8] / &str / &[&str]) stored indirectly: follow it
                if let ty::Ref(_, inner, _) = ty.kind() {
                    if matches!(inner.kind(), ty::Slice(_) | ty::Str) {
                        if let Some((aid, poff, len)) = self.read_fat_ptr(*alloc_id, offset.bytes() as usize) {
                            let is_u8 = match inner.kind() {
                                ty::Slice(e) => matches!(e.kind(), ty::Uint(ty::UintTy::U8)),
                                _ => false,
                            };
                            if matches!(inner.kind(), ty::Str) || is_u8 {
                                if let Some(b) = self.read_alloc_bytes(aid, poff, len) {
                                    if is_u8 {
                                        out.push(("bytes", J::Arr(b.iter().map(|x| J::Int(*x as i128)).collect())));
                                    } else {
                                        out.push(("str", J::s(String::from_utf8_lossy(&b).into_owned())));
                                    }
                                }
                            } else if let ty::Slice(e) = inner.kind() {
                                if matches!(e.kind(), ty::Ref(_, i, _) if matches!(i.kind(), ty::Str)) {
                                    let mut strs = Vec::new();
                                    let ps = tcx.data_layout.pointer_size().bytes();
                                    let mut ok = true;
                                    for i in 0..len {
                                        match self.read_fat_ptr(aid, (poff + i * 2 * ps) as usize) {
                                            Some((a2, o2, l2)) => match self.read_alloc_bytes(a2, o2, l2) {
                                                Some(b) => strs.push(J::s(String::from_utf8_lossy(&b).into_owned())),
                                                None => ok = false,
                                            },
                                            None => ok = false,
                                        }
                                    }
                                    if ok {
                                        out.push(("strs", J::Arr(strs)));
                                    }
                                }
                            }
                        }
                        return;
                    }
                }
                // arrays of u8 / small ints: dump bytes
                let mut t = ty;
                if let ty::Ref(_, inner, _) = t.kind() {
                    t = *inner;
                }
                if let ty::Array(elem, n) = t.kind() {
                    if let Some(n) = n.try_to_target_usize(tcx) {
                        let esz = match elem.kind() {
                            ty::Uint(u) => u.bit_width().map(|b| b / 8),
                            ty::Int(u) => u.bit_width().map(|b| b / 8),
                            _ => None,
                        };
                        if let Some(esz) = esz {
                            if let Some(b) = self.read_alloc_bytes(*alloc_id, offset.bytes(), n * esz) {
                                if esz == 1 {
                                    out.push(("bytes", J::Arr(b.iter().map(|x| J::Int(*x as i128)).collect())));
                                } else {
                                    let mut vals = Vec::new();
                                    for ch in b.chunks(esz as usize) {
                                        let mut v: u128 = 0;
                                        for (i, x) in ch.iter().enumerate() {
                                            v |= (*x as u128) << (8 * i);
                                        }
                                        vals.push(J::Int(v as i128));
                                    }
                                    out.push(("ints", J::Arr(vals)));
                                }
                            }
                        }
                    }
                }
            }
        }
    }

    fn constant(&self, owner: DefId, c: &ConstOperand<'tcx>) -> J {
        let tcx = self.tcx;
        let ty = c.const_.ty();
        let mut f: Vec<(&'static str, J)> = vec![("k", J::s("const")), ("ty", J::s(ty_s(ty)))];
        match ty.kind() {
            ty::FnDef(d, args) => {
                f.push(("fn", J::s(dp(tcx, *d))));
                if let DefKind::Ctor(of, _) = tcx.def_kind(*d) {
                    let parent = tcx.parent(*d);
                    match of {
                        CtorOf::Variant => {
                            f.push(("ctor", J::s(dp(tcx, parent))));
                        }
                        CtorOf::Struct => {
                            f.push(("ctor", J::s(dp(tcx, parent))));
                        }
                    }
                }
                let ga: Vec<J> = args.iter().map(|a| J::s(rustc_middle::ty::print::with_no_trimmed_paths!(format!("{}", a)))).collect();
                if !ga.is_empty() {
                    f.push(("ga", J::Arr(ga)));
                }
                let env = TypingEnv::post_analysis(tcx, owner);
                if let Ok(Some(inst)) = Instance::try_resolve(tcx, env, *d, args) {
                    let rd = inst.def_id();
                    if rd != *d {
                        f.push(("res", J::s(dp(tcx, rd))));
                    }
                }
            }
            ty::Closure(d, _) => {
                f.push(("closure", J::s(dp(tcx, *d))));
            }
            _ => {}
        }
        match &c.const_ {
            Const::Val(v, ty) => self.const_val(v, *ty, &mut f),
            Const::Unevaluated(u, ty) => {
                f.push(("item", J::s(dp(tcx, u.def))));
                if let Some(pi) = u.promoted {
                    f.push(("promoted", J::Bool(true)));
                    f.push(("pidx", J::Int(pi.index() as i128)));
                }
                let env = TypingEnv::post_analysis(tcx, owner);
                if let Ok(v) = tcx.const_eval_resolve(env, *u, c.span) {
                    self.const_val(&v, *ty, &mut f);
                }
            }
            Const::Ty(_, ct) => {
                if let Some(v) = ct.try_to_target_usize(tcx) {
                    f.push(("int", J::Int(v as i128)));
                } else {
                    f.push(("tyconst", J::s(format!("{}", ct))));
                }
            }
        }
        J::obj(f)
    }

    fn operand(&self, owner: DefId, body: &Body<'tcx>, o: &Operand<'tcx>) -> J {
        match o {
            Operand::Copy(p) => J::obj(vec![("k", J::s("copy")), ("pl", self.place(body, p))]),
            Operand::Move(p) => J::obj(vec![("k", J::s("move")), ("pl", self.place(body, p))]),
            Operand::Constant(c) => self.constant(owner, c),
            Operand::RuntimeChecks(_) => J::obj(vec![("k", J::s("rtcheck"))]),
        }
    }

    fn rvalue(&self, owner: DefId, body: &Body<'tcx>, rv: &Rvalue<'tcx>) -> J {
        let tcx = self.tcx;
        match rv {
            Rvalue::Use(o, _) => J::obj(vec![("r", J::s("use")), ("o", self.operand(owner, body, o))]),
            Rvalue::Repeat(o, n) => {
                let mut f = vec![("r", J::s("repeat")), ("o", self.operand(owner, body, o))];
                if let Some(v) = n.try_to_target_usize(tcx) {
                    f.push(("n", J::Int(v as i128)));
                }
                J::obj(f)
            }
            Rvalue::Ref(_, bk, p) => J::obj(vec![
                ("r", J::s("ref")),
                ("mut", J::Bool(matches!(bk, BorrowKind::Mut { .. }))),
                ("pl", self.place(body, p)),
            ]),
            Rvalue::ThreadLocalRef(d) => J::obj(vec![("r", J::s("tls")), ("def", J::s(dp(tcx, *d)))]),
            Rvalue::RawPtr(_, p) => J::obj(vec![("r", J::s("rawptr")), ("pl", self.place(body, p))]),
            Rvalue::Cast(kind, o, ty) => {
                let ks = match kind {
                    CastKind::IntToInt => "IntToInt",
                    CastKind::FloatToInt => "FloatToInt",
                    CastKind::FloatToFloat => "FloatToFloat",
                    CastKind::IntToFloat => "IntToFloat",
                    CastKind::PtrToPtr => "PtrToPtr",
                    CastKind::FnPtrToPtr => "FnPtrToPtr",
                    CastKind::Transmute => "Transmute",
                    CastKind::PointerCoercion(..) => "PointerCoercion",
                    CastKind::PointerExposeProvenance => "PointerExpose",
                    CastKind::PointerWithExposedProvenance => "PointerFromExposed",
                    #[allow(unreachable_patterns)]
                    _ => "Other",
                };
                J::obj(vec![
                    ("r", J::s("cast")),
                    ("kind", J::s(ks)),
                    ("o", self.operand(owner, body, o)),
                    ("from", J::s(ty_s(o.ty(&body.local_decls, tcx)))),
                    ("ty", J::s(ty_s(*ty))),
                ])
            }
            Rvalue::BinaryOp(op, ab) => J::obj(vec![
                ("r", J::s("bin")),
                ("op", J::s(format!("{:?}", op))),
                ("a", self.operand(owner, body, &ab.0)),
                ("b", self.operand(owner, body, &ab.1)),
            ]),
            Rvalue::UnaryOp(op, a) => J::obj(vec![
                ("r", J::s("un")),
                ("op", J::s(format!("{:?}", op))),
                ("a", self.operand(owner, body, a)),
            ]),
            Rvalue::Discriminant(p) => {
                let pt = p.ty(&body.local_decls, tcx).ty;
                J::obj(vec![
                    ("r", J::s("discr")),
                    ("pl", self.place(body, p)),
                    ("adt", adt_of(tcx, pt)),
                ])
            }
            Rvalue::Aggregate(kind, ops) => {
                let mut f = vec![("r", J::s("agg"))];
                match &**kind {
                    AggregateKind::Array(t) => {
                        f.push(("ak", J::s("array")));
                        f.push(("ety", J::s(ty_s(*t))));
                    }
                    AggregateKind::Tuple => f.push(("ak", J::s("tuple"))),
                    AggregateKind::Adt(did, vi, _, _, _) => {
                        f.push(("ak", J::s("adt")));
                        f.push(("adt", J::s(dp(tcx, *did))));
                        let adt = tcx.adt_def(*did);
                        if vi.index() < adt.variants().len() {
                            let v = adt.variant(*vi);
                            f.push(("variant", J::s(v.name.to_string())));
                            f.push((
                                "fields",
                                J::Arr(v.fields.iter().map(|fd| J::s(fd.name.to_string())).collect()),
                            ));
                        }
                    }
                    AggregateKind::Closure(d, _) => {
                        f.push(("ak", J::s("closure")));
                        f.push(("def", J::s(dp(tcx, *d))));
                    }
                    AggregateKind::Coroutine(d, _) | AggregateKind::CoroutineClosure(d, _) => {
                        f.push(("ak", J::s("coroutine")));
                        f.push(("def", J::s(dp(tcx, *d))));
                    }
                    AggregateKind::RawPtr(..) => f.push(("ak", J::s("rawptr"))),
                }
                f.push(("ops", J::Arr(ops.iter().map(|o| self.operand(owner, body, o)).collect())));
                J::obj(f)
            }
            Rvalue::CopyForDeref(p) => J::obj(vec![("r", J::s("cfd")), ("pl", self.place(body, p))]),
            Rvalue::WrapUnsafeBinder(o, _) => J::obj(vec![("r", J::s("use")), ("o", self.operand(owner, body, o))]),
        }
    }

    fn span_j(&self, sp: Span, f: &mut Vec<(&'static str, J)>) {
        let (_, line) = loc(self.tcx, sp);
        f.push(("ln", J::Int(line as i128)));
        if sp.from_expansion() {
            f.push(("exp", J::Bool(true)));
            // also the line of the outermost macro call site
            let cs = sp.source_callsite();
            let (_, l2) = loc(self.tcx, cs);
            f.push(("cln", J::Int(l2 as i128)));
        }
    }

    fn body(&self, did: DefId) -> Option<J> {
        let tcx = self.tcx;
        let kind = tcx.def_kind(did);
        let body: &Body<'tcx> = tcx.optimized_mir(did);
        let (file, line) = loc(tcx, tcx.def_span(did));
        let mut f: Vec<(&'static str, J)> = vec![
            ("path", J::s(dp(tcx, did))),
            ("kind", J::s(format!("{:?}", kind))),
            ("file", J::s(file)),
            ("line", J::Int(line as i128)),
            ("argc", J::Int(body.arg_count as i128)),
        ];
        if matches!(kind, DefKind::Fn | DefKind::AssocFn) {
            f.push(("vis", J::s(format!("{:?}", tcx.visibility(did)))));
            // generics with trait bounds
            let mut gens = Vec::new();
            let preds = tcx.predicates_of(did);
            let inst = preds.instantiate_identity(tcx);
            for (clause, _) in inst.predicates.iter().zip(inst.spans.iter()) {
                let clause = clause.skip_norm_wip();
                if let Some(tp) = clause.as_trait_clause() {
                    let tp = tp.skip_binder();
                    gens.push(J::obj(vec![
                        ("ty", J::s(ty_s(tp.self_ty()))),
                        ("tr", J::s(dp(tcx, tp.def_id()))),
                    ]));
                }
            }
            f.push(("bounds", J::Arr(gens)));
            // impl-of: trait + self ty
            if let Some(impl_did) = tcx.impl_of_assoc(did) {
                let self_ty = tcx.type_of(impl_did).instantiate_identity().skip_norm_wip();
                f.push(("impl_self", J::s(ty_s(self_ty))));
                if let Some(tr) = tcx.impl_opt_trait_ref(impl_did) {
                    let tr = tr.instantiate_identity().skip_norm_wip();
                    f.push(("impl_trait", J::s(dp(tcx, tr.def_id))));
                }
            }
        }
        if matches!(kind, DefKind::Closure) {
            f.push(("parent", J::s(dp(tcx, tcx.typeck_root_def_id(did)))));
        }
        f.push(("ret", J::s(ty_s(body.return_ty()))));
        // locals
        let mut names: Vec<Option<String>> = vec![None; body.local_decls.len()];
        for vdi in body.var_debug_info.iter() {
            if let VarDebugInfoContents::Place(p) = &vdi.value {
                if p.projection.is_empty() {
                    names[p.local.index()] = Some(vdi.name.to_string());
                }
            }
        }
        let mut locals = Vec::new();
        for (i, d) in body.local_decls.iter_enumerated() {
            let mut lf = vec![("ty", J::s(ty_s(d.ty)))];
            let a = adt_of(tcx, d.ty);
            if !matches!(a, J::Null) {
                lf.push(("adt", a));
            }
            if let Some(n) = &names[i.index()] {
                lf.push(("name", J::s(n.clone())));
            }
            locals.push(J::obj(lf));
        }
        f.push(("locals", J::Arr(locals)));
        // closure upvar names via var_debug_info with projections on _1
        let mut upv = Vec::new();
        for vdi in body.var_debug_info.iter() {
            if let VarDebugInfoContents::Place(p) = &vdi.value {
                if !p.projection.is_empty() {
                    upv.push(J::obj(vec![("name", J::s(vdi.name.to_string())), ("pl", self.place(body, p))]));
                }
            }
        }
        if !upv.is_empty() {
            f.push(("upvars", J::Arr(upv)));
        }
        f.push(("blocks", self.blocks_j(did, body)));
        // promoted constants of this body (e.g. `&Schema::Bytes`, `&Codec::Null`): their tiny bodies
        let proms = tcx.promoted_mir(did);
        if !proms.is_empty() {
            let mut pj = Vec::new();
            for (pi, pb) in proms.iter_enumerated() {
                pj.push(J::obj(vec![
                    ("pidx", J::Int(pi.index() as i128)),
                    ("ret", J::s(ty_s(pb.return_ty()))),
                    ("blocks", self.blocks_j(did, pb)),
                ]));
            }
            f.push(("promoteds", J::Arr(pj)));
        }
        Some(J::obj(f))
    }

    fn blocks_j(&self, did: DefId, body: &Body<'tcx>) -> J {
        let tcx = self.tcx;
        let mut blocks = Vec::new();
        for (_bb, data) in body.basic_blocks.iter_enumerated() {
            let mut stmts = Vec::new();
            for st in data.statements.iter() {
                match &st.kind {
                    StatementKind::Assign(b) => {
                        let (pl, rv) = &**b;
                        let mut sf = vec![
                            ("s", J::s("assign")),
                            ("pl", self.place(body, pl)),
                            ("rv", self.rvalue(did, body, rv)),
                        ];
                        self.span_j(st.source_info.span, &mut sf);
                        stmts.push(J::obj(sf));
                    }
                    StatementKind::SetDiscriminant { place, variant_index } => {
                        let pt = place.ty(&body.local_decls, tcx).ty;
                        let vn = match pt.kind() {
                            ty::Adt(a, _) if variant_index.index() < a.variants().len() => {
                                a.variant(*variant_index).name.to_string()
                            }
                            _ => format!("{}", variant_index.index()),
                        };
                        let mut sf = vec![
                            ("s", J::s("setdiscr")),
                            ("pl", self.place(body, place)),
                            ("variant", J::s(vn)),
                        ];
                        self.span_j(st.source_info.span, &mut sf);
                        stmts.push(J::obj(sf));
                    }
                    _ => {}
                }
            }
            let term = data.terminator();
            let mut tf: Vec<(&'static str, J)> = Vec::new();
            match &term.kind {
                TerminatorKind::Goto { target } => {
                    tf.push(("t", J::s("goto")));
                    tf.push(("target", J::Int(target.index() as i128)));
                }
                TerminatorKind::SwitchInt { discr, targets } => {
                    tf.push(("t", J::s("switch")));
                    tf.push(("discr", self.operand(did, body, discr)));
                    tf.push(("dty", J::s(ty_s(discr.ty(&body.local_decls, tcx)))));
                    let mut ts = Vec::new();
                    for (v, t) in targets.iter() {
                        ts.push(J::Arr(vec![J::Int(v as i128), J::Int(t.index() as i128)]));
                    }
                    tf.push(("targets", J::Arr(ts)));
                    tf.push(("otherwise", J::Int(targets.otherwise().index() as i128)));
                }
                TerminatorKind::UnwindResume => tf.push(("t", J::s("resume"))),
                TerminatorKind::UnwindTerminate(_) => tf.push(("t", J::s("terminate"))),
                TerminatorKind::Return => tf.push(("t", J::s("return"))),
                TerminatorKind::Unreachable => tf.push(("t", J::s("unreachable"))),
                TerminatorKind::Drop { place, target, unwind, .. } => {
                    tf.push(("t", J::s("drop")));
                    tf.push(("pl", self.place(body, place)));
                    tf.push(("target", J::Int(target.index() as i128)));
                    if let UnwindAction::Cleanup(b) = unwind {
                        tf.push(("unwind", J::Int(b.index() as i128)));
                    }
                }
                TerminatorKind::Call { func, args, destination, target, unwind, .. } => {
                    tf.push(("t", J::s("call")));
                    tf.push(("func", self.operand(did, body, func)));
                    tf.push(("args", J::Arr(args.iter().map(|a| self.operand(did, body, &a.node)).collect())));
                    tf.push((
                        "argtys",
                        J::Arr(args.iter().map(|a| J::s(ty_s(a.node.ty(&body.local_decls, tcx)))).collect()),
                    ));
                    tf.push(("dest", self.place(body, destination)));
                    match target {
                        Some(t) => tf.push(("target", J::Int(t.index() as i128))),
                        None => tf.push(("target", J::Null)),
                    }
                    if let UnwindAction::Cleanup(b) = unwind {
                        tf.push(("unwind", J::Int(b.index() as i128)));
                    }
                }
                TerminatorKind::TailCall { func, args, .. } => {
                    tf.push(("t", J::s("tailcall")));
                    tf.push(("func", self.operand(did, body, func)));
                    tf.push(("args", J::Arr(args.iter().map(|a| self.operand(did, body, &a.node)).collect())));
                }
                TerminatorKind::Assert { cond, expected, msg, target, unwind } => {
                    tf.push(("t", J::s("assert")));
                    tf.push(("cond", self.operand(did, body, cond)));
                    tf.push(("expected", J::Bool(*expected)));
                    let (k, ops): (String, Vec<&Operand<'tcx>>) = match &**msg {
                        AssertKind::BoundsCheck { len, index } => ("BoundsCheck".into(), vec![len, index]),
                        AssertKind::Overflow(op, a, b) => (format!("Overflow:{:?}", op), vec![a, b]),
                        AssertKind::OverflowNeg(a) => ("OverflowNeg".into(), vec![a]),
                        AssertKind::DivisionByZero(a) => ("DivisionByZero".into(), vec![a]),
                        AssertKind::RemainderByZero(a) => ("RemainderByZero".into(), vec![a]),
                        AssertKind::MisalignedPointerDereference { .. } => ("Misaligned".into(), vec![]),
                        AssertKind::NullPointerDereference => ("NullPtr".into(), vec![]),
                        other => (format!("{:?}", std::mem::discriminant(other)), vec![]),
                    };
                    tf.push(("kind", J::s(k)));
                    tf.push(("ops", J::Arr(ops.iter().map(|o| self.operand(did, body, o)).collect())));
                    tf.push(("target", J::Int(target.index() as i128)));
                    if let UnwindAction::Cleanup(b) = unwind {
                        tf.push(("unwind", J::Int(b.index() as i128)));
                    }
                }
                TerminatorKind::FalseEdge { real_target, .. } => {
                    tf.push(("t", J::s("goto")));
                    tf.push(("target", J::Int(real_target.index() as i128)));
                }
                TerminatorKind::FalseUnwind { real_target, .. } => {
                    tf.push(("t", J::s("goto")));
                    tf.push(("target", J::Int(real_target.index() as i128)));
                }
                TerminatorKind::Yield { .. } => tf.push(("t", J::s("yield"))),
                TerminatorKind::CoroutineDrop => tf.push(("t", J::s("cdrop"))),
                TerminatorKind::InlineAsm { .. } => tf.push(("t", J::s("asm"))),
            }
            self.span_j(term.source_info.span, &mut tf);
            let mut bf = vec![("stmts", J::Arr(stmts)), ("term", J::obj(tf))];
            if data.is_cleanup {
                bf.push(("cleanup", J::Bool(true)));
            }
            blocks.push(J::obj(bf));
        }
        J::Arr(blocks)
    }
}

fn mentions_interior(s: &str) -> bool {
    ["Mutex", "RwLock", "Atomic", "Cell<", "RefCell", "UnsafeCell", "OnceLock", "OnceCell", "LazyLock", "LazyCell"]
        .iter()
        .any(|k| s.contains(k))
}

fn extract<'tcx>(tcx: TyCtxt<'tcx>, krate: &str) -> J {
    let ex = Ex { tcx };
    let mut bodies = Vec::new();
    let mut statics = Vec::new();
    let mut consts = Vec::new();
    let mut adts = Vec::new();
    let mut impls = Vec::new();

    let mut keys: Vec<_> = tcx.mir_keys(()).iter().copied().collect();
    keys.sort_by_key(|k| tcx.def_path_hash(k.to_def_id()));
    for ldid in keys {
        let did = ldid.to_def_id();
        let kind = tcx.def_kind(did);
        match kind {
            DefKind::Fn | DefKind::AssocFn | DefKind::Closure => {
                if tcx.is_constructor(did) {
                    continue;
                }
                if let Some(b) = ex.body(did) {
                    bodies.push(b);
                }
            }
            _ => {}
        }
    }
    // module items: statics, consts, adts, impls
    for id in tcx.hir_crate_items(()).definitions() {
        let did = id.to_def_id();
        let kind = tcx.def_kind(did);
        match kind {
            DefKind::Static { mutability, nested, .. } => {
                if nested {
                    continue;
                }
                let ty = tcx.type_of(did).instantiate_identity().skip_norm_wip();
                let env = TypingEnv::post_analysis(tcx, did);
                let (file, line) = loc(tcx, tcx.def_span(did));
                let tys = ty_s(ty);
                let tls = tcx.is_thread_local_static(did);
                statics.push(J::obj(vec![
                    ("path", J::s(dp(tcx, did))),
                    ("ty", J::s(tys.clone())),
                    ("mutable", J::Bool(matches!(mutability, rustc_hir::Mutability::Mut))),
                    ("freeze", J::Bool(ty.is_freeze(tcx, env))),
                    ("interior", J::Bool(mentions_interior(&tys))),
                    ("thread_local", J::Bool(tls)),
                    ("vis", J::s(format!("{:?}", tcx.visibility(did)))),
                    ("file", J::s(file)),
                    ("line", J::Int(line as i128)),
                ]));
            }
            DefKind::Const { .. } | DefKind::AssocConst { .. } => {
                // only non-generic consts
                if tcx.generics_of(did).count() != 0 {
                    continue;
                }
                if matches!(kind, DefKind::AssocConst { .. }) {
                    if tcx.trait_of_assoc(did).is_some() {
                        continue;
                    }
                }
                let ty = tcx.type_of(did).instantiate_identity().skip_norm_wip();
                let mut f = vec![("path", J::s(dp(tcx, did))), ("ty", J::s(ty_s(ty)))];
                if let Ok(v) = tcx.const_eval_poly(did) {
                    ex.const_val(&v, ty, &mut f);
                    // &[&str] tables: try to decode slice of str refs
                    if let Some(strs) = decode_str_table(tcx, &v, ty) {
                        f.push(("strs", J::Arr(strs.into_iter().map(J::s).collect())));
                    }
                }
                consts.push(J::obj(f));
            }
            DefKind::Enum | DefKind::Struct => {
                let adt = tcx.adt_def(did);
                let mut vs = Vec::new();
                for v in adt.variants().iter() {
                    let mut fl = Vec::new();
                    for fd in v.fields.iter() {
                        let fty = tcx.type_of(fd.did).instantiate_identity().skip_norm_wip();
                        fl.push(J::obj(vec![("name", J::s(fd.name.to_string())), ("ty", J::s(ty_s(fty)))]));
                    }
                    vs.push(J::obj(vec![("name", J::s(v.name.to_string())), ("fields", J::Arr(fl))]));
                }
                let ty = tcx.type_of(did).instantiate_identity().skip_norm_wip();
                let env = TypingEnv::post_analysis(tcx, did);
                let freeze = if tcx.generics_of(did).count() == 0 { J::Bool(ty.is_freeze(tcx, env)) } else { J::Null };
                adts.push(J::obj(vec![
                    ("path", J::s(dp(tcx, did))),
                    ("kind", J::s(format!("{:?}", kind))),
                    ("vis", J::s(format!("{:?}", tcx.visibility(did)))),
                    ("freeze", freeze),
                    ("variants", J::Arr(vs)),
                ]));
            }
            DefKind::Impl { .. } => {
                let self_ty = tcx.type_of(did).instantiate_identity().skip_norm_wip();
                let mut f = vec![("self", J::s(ty_s(self_ty)))];
                if let Some(tr) = tcx.impl_opt_trait_ref(did) {
                    let tr = tr.instantiate_identity().skip_norm_wip();
                    f.push(("trait", J::s(dp(tcx, tr.def_id))));
                    f.push(("trait_ref", J::s(rustc_middle::ty::print::with_no_trimmed_paths!(format!("{}", tr)))));
                }
                let mut ms = Vec::new();
                for item in tcx.associated_items(did).in_definition_order() {
                    if matches!(item.kind, ty::AssocKind::Fn { .. }) {
                        ms.push(J::obj(vec![
                            ("name", J::s(item.name().to_string())),
                            ("path", J::s(dp(tcx, item.def_id))),
                        ]));
                    }
                }
                f.push(("methods", J::Arr(ms)));
                impls.push(J::obj(f));
            }
            _ => {}
        }
    }
    let mut feats = String::new();
    let mut fl: Vec<String> = Vec::new();
    for (k, v) in tcx.sess.config.iter() {
        if k.as_str() == "feature" {
            if let Some(v) = v {
                fl.push(v.to_string());
            }
        }
    }
    fl.sort();
    let _ = write!(feats, "{}", fl.join(","));
    J::obj(vec![
        ("crate", J::s(krate.to_string())),
        ("cfg_features", J::s(feats)),
        ("is_test", J::Bool(tcx.sess.opts.test)),
        ("bodies", J::Arr(bodies)),
        ("statics", J::Arr(statics)),
        ("consts", J::Arr(consts)),
        ("adts", J::Arr(adts)),
        ("impls", J::Arr(impls)),
    ])
}

/// decode `&[&str]` / `[&str; N]` constant tables into strings (used for RESERVED_FIELDS etc.)
fn decode_str_table<'tcx>(tcx: TyCtxt<'tcx>, v: &ConstValue, ty: Ty<'tcx>) -> Option<Vec<String>> {
    use rustc_middle::mir::interpret::{GlobalAlloc, Scalar};
    let ptr_size = tcx.data_layout.pointer_size().bytes() as usize;
    let is_str_ref = |t: Ty<'tcx>| matches!(t.kind(), ty::Ref(_, i, _) if matches!(i.kind(), ty::Str));
    let (alloc_id, off, n): (_, usize, usize) = match (v, ty.kind()) {
        (ConstValue::Slice { alloc_id, meta }, ty::Ref(_, inner, _)) => match inner.kind() {
            ty::Slice(e) if is_str_ref(*e) => (*alloc_id, 0usize, *meta as usize),
            _ => return None,
        },
        (ConstValue::Indirect { alloc_id, offset }, ty::Array(e, n)) if is_str_ref(*e) => {
            (*alloc_id, offset.bytes() as usize, n.try_to_target_usize(tcx)? as usize)
        }
        (ConstValue::Scalar(Scalar::Ptr(p, _)), ty::Ref(_, inner, _)) => match inner.kind() {
            ty::Array(e, n) if is_str_ref(*e) => {
                let (prov, o) = p.into_raw_parts();
                (prov.alloc_id(), o.bytes() as usize, n.try_to_target_usize(tcx)? as usize)
            }
            _ => return None,
        },
        _ => return None,
    };
    let alloc = match tcx.try_get_global_alloc(alloc_id)? {
        GlobalAlloc::Memory(a) => a,
        _ => return None,
    };
    let a = alloc.inner();
    let mut out = Vec::new();
    for i in 0..n {
        let base = off + i * 2 * ptr_size;
        // pointer part: provenance entry at base
        let prov = a.provenance().ptrs().get(&rustc_abi::Size::from_bytes(base as u64))?;
        let raw = a.inspect_with_uninit_and_ptr_outside_interpreter(base..base + 2 * ptr_size);
        let mut poff: u64 = 0;
        for (k, b) in raw[..ptr_size].iter().enumerate() {
            poff |= (*b as u64) << (8 * k);
        }
        let mut len: u64 = 0;
        for (k, b) in raw[ptr_size..].iter().enumerate() {
            len |= (*b as u64) << (8 * k);
        }
        let target = match tcx.try_get_global_alloc(prov.alloc_id())? {
            GlobalAlloc::Memory(m) => m,
            _ => return None,
        };
        let ti = target.inner();
        if (poff + len) as usize > ti.len() {
            return None;
        }
        let bytes = ti.inspect_with_uninit_and_ptr_outside_interpreter(poff as usize..(poff + len) as usize);
        out.push(String::from_utf8_lossy(bytes).into_owned());
    }
    Some(out)
}
