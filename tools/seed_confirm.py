#!/usr/bin/env python3
"""confirm a seeded change delivered by a sub-agent, in its scratch worktree (never /repo):
   seed_confirm.py <Cxx> <a|b> [--checks C03,C13] [--root /tmp/seed2] [--id Cxx_c]
 1. worktree clean -> copy demo -> demo passes on the unchanged source
 2. git apply patch -> whole suite (775 existing tests) passes, demo fails
 3. git checkout -- . ; remove demo
 4. run the listed /verif checks on a patched scratch copy (selftest/mutate.py) and record which fire
 writes /verif/seeded/<Cxx>_<v>/{patch.diff,demo.rs,notes.md,meta.json}
"""
import json
import os
import re
import shutil
import subprocess
import sys

VERIF = os.path.dirname(os.path.dirname(os.path.abspath(__file__)))


def sh(cmd, cwd, timeout=3600):
    r = subprocess.run(cmd, cwd=cwd, shell=True, stdout=subprocess.PIPE, stderr=subprocess.STDOUT, text=True, timeout=timeout,
                       env=dict(os.environ, CARGO_NET_OFFLINE="true"))
    return r.returncode, r.stdout


def summary_line(out):
    m = re.findall(r"Summary \[.*?\]\s+(.*)", out)
    return m[-1].strip() if m else "?"


def main():
    pid, v = sys.argv[1], sys.argv[2]
    checks = [pid]
    if "--checks" in sys.argv:
        checks = sys.argv[sys.argv.index("--checks") + 1].split(",")
    root = sys.argv[sys.argv.index("--root") + 1] if "--root" in sys.argv else "/tmp/seed"
    sid = sys.argv[sys.argv.index("--id") + 1] if "--id" in sys.argv else "%s_%s" % (pid, v)
    wt = "%s/%s" % (root, pid)
    src = os.path.join(wt, "out", v)
    patch = os.path.join(src, "patch.diff")
    demo_rel = open(os.path.join(src, "demo_path.txt")).read().strip()
    demo_name = os.path.splitext(os.path.basename(demo_rel))[0]
    meta = {"id": sid, "breaks_property": pid, "worktree": wt, "steps": []}
    rc, out = sh("git status --porcelain --untracked-files=no", wt)
    if out.strip():
        sh("git checkout -- .", wt)
    # 1. demo on unchanged source
    shutil.copy(os.path.join(src, "demo.rs"), os.path.join(wt, demo_rel))
    pkg = "apache-avro-derive" if demo_rel.startswith("avro_derive/") else "apache-avro"
    rc, out = sh("cargo nextest run -p %s --offline --test %s --no-fail-fast 2>&1 | tail -40" % (pkg, demo_name), wt)
    s1 = summary_line(out)
    ok_unchanged = " passed" in s1 and "failed" not in s1
    meta["steps"].append({"cmd": "unchanged source: cargo nextest run -p %s --offline --test %s" % (pkg, demo_name), "outcome": s1})
    # 2. apply, whole suite + demo
    rc, out = sh("git apply %s" % patch, wt)
    if rc != 0:
        meta["steps"].append({"cmd": "git apply", "outcome": "FAILED: " + out[-300:]})
        ok_suite = ok_demo_fails = False
    else:
        rc, out = sh("cargo nextest run --workspace --no-fail-fast --offline --test-threads 12 2>&1 | tail -60", wt, timeout=7200)
        s2 = summary_line(out)
        failed = sorted(set(re.findall(r"^\s+FAIL \[.*?\] (\S+ \S+)", out, re.M)))
        meta["steps"].append({"cmd": "with the change: cargo nextest run --workspace --no-fail-fast --offline (existing suite + demo)", "outcome": s2, "failed_tests": failed})
        ok_demo_fails = any(demo_name in f for f in failed)
        ok_suite = all(demo_name in f for f in failed) and "passed" in s2
    sh("git checkout -- . && rm -f %s" % demo_rel, wt)
    meta["confirmed"] = bool(ok_unchanged and ok_suite and ok_demo_fails)
    meta["demo_passes_unchanged"] = ok_unchanged
    meta["suite_passes_with_change"] = ok_suite
    meta["demo_fails_with_change"] = ok_demo_fails
    # 4. our checks
    sys.path.insert(0, os.path.join(VERIF, "selftest"))
    import mutate
    res = mutate.run_on_patch(patch, checks)
    det = {}
    for p, (rc, out) in res.items():
        fired = rc == 1 and ("VIOLATION property=%s" % p) in out
        det[p] = {"fired": fired, "rc": rc, "violations": [ln.strip()[len("violation: "):] for ln in out.splitlines() if ln.strip().startswith("violation:")][:8]}
    meta["checks"] = det
    meta["detected_by"] = sorted(p for p, d in det.items() if d["fired"])
    meta["as_delivered"] = "caught" if pid in meta["detected_by"] else "missed"
    notes = open(os.path.join(src, "notes.md")).read() if os.path.exists(os.path.join(src, "notes.md")) else ""
    m = re.search(r"(?is)(needs|manifest|trigger)[^\n]*\n(.{0,600})", notes)
    meta["needs_to_manifest"] = "see notes.md"
    dst = os.path.join(VERIF, "seeded", sid)
    os.makedirs(dst, exist_ok=True)
    shutil.copy(patch, os.path.join(dst, "patch.diff"))
    shutil.copy(os.path.join(src, "demo.rs"), os.path.join(dst, "demo.rs"))
    open(os.path.join(dst, "demo_path.txt"), "w").write(demo_rel + "\n")
    if notes:
        open(os.path.join(dst, "notes.md"), "w").write(notes)
    if not meta["confirmed"]:
        meta["note"] = "NOT CONFIRMED - kept only for reference, not counted"
    with open(os.path.join(dst, "meta.json"), "w") as fh:
        json.dump(meta, fh, indent=1)
    print(json.dumps({k: meta[k] for k in ("id", "confirmed", "detected_by", "demo_passes_unchanged", "suite_passes_with_change", "demo_fails_with_change")}))
    for p, d in det.items():
        print("  ", p, "fired" if d["fired"] else "silent rc=%d" % d["rc"], d["violations"][:3])


if __name__ == "__main__":
    main()
