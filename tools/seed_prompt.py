#!/usr/bin/env python3
"""print the prompt handed to an independent sub-agent that seeds a property-breaking change.
The prompt contains only the property text and the path of the agent's own scratch worktree."""
import json, sys, os
VERIF = os.path.dirname(os.path.dirname(os.path.abspath(__file__)))
pid = sys.argv[1]
p = [json.loads(l) for l in open(os.path.join(VERIF, "properties.jsonl")) if json.loads(l)["id"] == pid][0]
print(f"""You are helping to evaluate bug-finding tools. You work ONLY inside the scratch git worktree {'/tmp/seed/' + pid} (a checkout of the Rust project apache/avro-rs, the Apache Avro Rust SDK). Do not read or touch /repo or /verif or any other directory outside your worktree (except the cargo registry, read-only, if you need to look at a dependency). There is no network; always pass --offline to cargo. Use `CARGO_TARGET_DIR={'/tmp/seed/' + pid}/target` (the default) so your build output stays inside your worktree.

Here is a semantic property that the library is supposed to satisfy:

  {pid} - {p['title']}
  {p['statement']}

Your task: produce TWO different, independent source changes to the library (files under avro/src or avro_derive/src) such that each change
  (a) BREAKS the property above (a user relying on the property would be harmed),
  (b) still compiles, and the project's whole existing test suite still passes with it:
        cargo nextest run --workspace --no-fail-fast --offline --test-threads 8
      (do not edit, delete or ignore any existing test; about 775 tests; takes a few minutes; run it for each change),
  (c) looks like a plausible, realistic edit (a refactoring slip, an "optimisation", a wrong condition, a dropped step, a reordered pair of operations, a mishandled edge case) - not sabotage that any ordinary use would expose at once. Prefer changes that need something specific to manifest: a particular interleaving or sequence of several operations, a fault or short write at a particular point, an unusual but legal input, a boundary value, or two cooperating sites that each look fine alone,
  (d) the two changes should differ in mechanism and touch different functions.

For each change also write a demonstration: one new integration test file (e.g. avro/tests/seed_{pid.lower()}_a.rs, seed_{pid.lower()}_b.rs) with a test that FAILS with the change applied and PASSES on the unchanged code. The demonstration file is NOT part of the change itself. Verify both directions yourself (git stash / git checkout to get back to the unchanged source).

Deliver, in the directory {'/tmp/seed/' + pid}/out/ :
  a/patch.diff   - `git diff` of the library change only (must apply with `git apply` on the unchanged checkout; no test files inside)
  a/demo.rs      - the demonstration test file, plus a/demo_path.txt holding the repo-relative path it must be copied to (e.g. avro/tests/seed_{pid.lower()}_a.rs)
  a/notes.md     - which clause of the property it breaks, what is needed for it to manifest, and the exact commands you ran with their outcome (suite pass count with the change; demo fail with / pass without)
  b/...          - the same for the second change.
When done, leave the worktree's tracked files UNCHANGED (git checkout -- . ; remove the demo files from avro/tests), keep only out/. Your final message: a 5-line summary of both changes (site + mechanism + what triggers it) and whether every verification step succeeded. If you could only produce one verified change, say so plainly; never claim a verification you did not run.""")
