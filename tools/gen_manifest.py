#!/usr/bin/env python3
"""regenerate MANIFEST.json from the table below (keeps it valid and in sync with rules/)."""
import json
import os

VERIF = os.path.dirname(os.path.dirname(os.path.abspath(__file__)))
props = [json.loads(l) for l in open(os.path.join(VERIF, "properties.jsonl"))]

TECH = "static analysis over rustc MIR (custom rustc_private driver + python rules)"
CLAIMS = {
    "C05": ("provenance of every allocation size in the reading set (CONST|LEN|LIMIT|guard value, parameters checked at callers), guard polarity on the MIR comparison operator, declared-count provenance, overflow asserts on input-derived operands, closed panic-site inventory; the container iterators stop after the first error (imported latch instances)",
            "static analysis: backward provenance slicing + call-graph closure + panic-site inventory over MIR"),
    "C06": ("the container block buffer holds exactly the declared block (fill_buf resizes on every path before read_exact of the whole buffer); dominance query: no Ok constructed on the Err edge of any read result in the reading set (both decoders, readers); for each of the 31 schema shapes the decoder builds only the Value variant validation accepts for it; enum and union indices are range-checked before a value is built",
            "static analysis: dominance/edge-region query + variant-partitioned path summaries over MIR"),
    "C13": ("no partial Write::write on caller sinks, no dropped byte counts, no discarded sink results, no explicit panic in Writer::drop - on every function of the crate; the error of a sink write is never absorbed (Err edge of every sink-carrying result only returns an error); a sub-serializer's initial byte count is a byte count",
            "static analysis: resolved-callee query + taint over MIR"),
    "C14": ("marker gate, read order, header magic gate, error latch, clean-end-only-on-first-byte in the container reader, as dominance/edge-region facts",
            "static analysis: dominance / must-pass-through over MIR CFG"),
}
CLAIMS["C19"] = ("type-level facts for every static of both crates (no static mut, settings are immutable OnceLock, other interior-mutable statics classified), who-may-access sets, single default installer, accessor return-value dataflow, DEFAULT-constant rule on internal limit reads, guard polarity",
                 "static analysis: compiler type facts + who-may-access + dataflow over MIR")
CLAIMS["C03"] = ("pairing/ordering facts on Writer and Block: rollback of the pending buffer on a failed append, count-once after successful encode, flush order (compress, count, size, payload, marker, clear/reset), header-once, Drop/into_inner flush, reader bookkeeping after successful decode, extend = append-per-item + flush; buffer and pending count are reset together",
                 "static analysis: dominance / post-dominance / edge-region pairing rules over MIR")
CLAIMS["C18"] = ("header constants and fingerprint byte order in the header builder, reader header gate (read_exact of expected length, whole-vector compare, mismatch edge is Err, decode dominated by the Ok edge), writer buffer save/truncate pairing by post-dominance, validate-before-first-sink-write in the typed writers",
                 "static analysis: aggregate/constant inspection + dominance / post-dominance rules over MIR")
CLAIMS["C04"] = ("magic bytes (writer constant = reader constant = 4F 62 6A 01), header order magic/metadata map<bytes>/marker on both sides, agreement of the reserved metadata key sets between writer, reader and add_user_metadata's guard, absent avro.codec = Null, block order count/size/payload/marker on both sides with both numbers encoded as long, codec-name tables as inverse bijections over the specification's names",
                 "static analysis: constant evaluation + dominance ordering over MIR, writer/reader/spec-table cross-check")
CLAIMS["C12"] = ("the canonical form's attribute table (kept set and order vs the specification's STRIP/ORDER lists, unknown attributes stripped, sort by table position, PRIMITIVES decision counting kept attributes), fingerprint::<D> = D(canonical_form()) with no other input, Rabin framing (EMPTY seed value, Default/Reset, little-endian output, per-byte table fold), no hash-order iteration in the canonical-form call-graph slice; no Debug formatting in the canonical-form functions",
                 "static analysis: constant-table evaluation + per-literal edge-region classification + call/dataflow shape over MIR")
CLAIMS["C20"] = ("parse_list's output is filled in a loop over input_order (no map iteration), duplicate full names among the inputs are rejected on the Some edge of the input-table insert in both entry points, every insert into the parser's definition table is checked (previous value tested or guarded by contains_key on the same key), closed and re-verified inventory of hash-order iterations in the parser's call-graph slice; an input parsed on demand is answered with a reference for every named shape; names qualified whichever input is parsed first (imported); order-independent referability (3 known findings)",
                 "static analysis: loop/def-use shape + Option-edge regions + insert discipline + hash-iteration inventory over MIR")
CLAIMS["C11"] = ("gate rules on every acceptance path of the parser (Name, namespace, field name, field default, enum symbols / duplicates / default, duplicate record fields, union branch rules, fixed size, unresolved references: the construction is dominated by the Ok edge of its check and the failure edge is Err-only), who-may-construct sets for Name and UnionSchema, imported definition-table insert discipline (unique full names), closed panic-site inventory over the parse and post-parse call-graph slice; namespace provenance of every nested parse and of every name built from schema text; no silent filtering of structural JSON arrays; union builder index/list pairing; base kind per shape equals the specification's underlying type; default validators use the grammar's ASCII regular expressions; resolve_names registers exactly the named shapes",
                 "static analysis: dominance gates + who-may-construct + panic-site inventory over MIR")
CLAIMS["C02"] = ("per-shape wire-token sequences of decode_internal and encode_internal (zig-zag class, raw lengths, byte order of float/u32/big-integer conversions, uuid text/binary form, block headers, recursion, loop depth; one sequence per success path) equal the hand-transcribed specification table for all 31 schema shapes; both block-header readers read the byte size exactly on the negative-count edge, negate with a checked operation and end on 0; the buffered and direct serde block writers emit negative count + byte size + payload and the 0 terminator; big-decimal framing and the duration byte layout mirror each other; serde block writer flushes a block only on an item boundary (no write_block reachable before the item is counted); serde UnionSerializer writes the index of a branch kind only together with that kind's wire form (path-sensitive tag propagation, 12 pairings); the encoders write whole buffers (imported partial-write instances)",
                 "static analysis: variant-partitioned path summaries over MIR reduced to a token alphabet of resolved callees, compared with a specification table")
CLAIMS["C01"] = ("encoder/decoder agreement per schema shape: stream tokens (zig-zag class, raw moves and static lengths, recursion, loop depth) and conversion tokens (byte order, text/binary form) of encode_internal(V(S),S) vs decode_internal(S) on every success path, for all 31 shapes; totality of both; no read-ahead adapter on a caller-supplied reader; validation borrows the value immutably and Value is Freeze; a failed trial encoding into a reused scratch buffer is cleared on the failure edge before the buffer is used again; reads on the caller's reader are exact and partial reads retried; closed inventory of tests on decoded scalars; serde datum writer framing (imported)",
                 "static analysis: variant-partitioned path summaries of encoder vs decoder over MIR, adapter lint, compiler type facts")
CLAIMS["C07"] = ("for every (Value variant, schema shape) pair with an accepting path in validate_internal (98 today) the encoder has a success path whose stream tokens are the decoder's for that shape (or a listed, re-checked special form); validate dominates encode and the first sink write in every validating writer and the reject edge reaches neither; the encoder bounds enum indices by the schema; failed trial encodings leave no bytes; reusable writer buffers are rolled back on every exit (imported C03.R1, C18.R3 instances); value-side and schema-side base kinds of union branches agree; pending blocks flushed on the object count and reset (imported)",
                 "static analysis: acceptance relation x encoder/decoder wire tables (variant-partitioned path summaries) + dominance rules over MIR")
CLAIMS["C08"] = ("the resolver's acceptance table (per reader schema shape, which writer-side Value variants Value::resolve_internal can turn into it: 600+ cells) equals the specification's promotion table - every listed promotion has a success path and nothing else resolves; every reader shape dispatches to a resolver; record resolution looks the value up by reader name, then reader aliases, then default, else error, in reader field order; enum resolution uses the reader's symbols and the reader enum's default; record resolution consults the default only after the alias lookup (cut-reachability with Option propagation); the container reader's skip-resolution shortcut rests on a structural equality that answers false for all 849 pairs of different shapes and guards every zip with a length comparison; resolver result validates and re-resolves to the same variant per non-composite shape; arrays and maps resolve every item; no lossy conversion on the value path",
                 "static analysis: variant-partitioned path summaries of the resolver over MIR vs a specification table + call/def-use shape rules")
CLAIMS["C09"] = ("the compatibility checker's verdict table over all schema shape pairs (which of 890 pairs answer Full on every path) cross-checked with the resolver's acceptance table and the decoder's value table: a Full verdict requires an error-free resolver cell; lattice (Full only from Full & Full); mutual_read evaluates both directions unconditionally; the specification's safe steps (numeric promotions, string/bytes, self-compatibility of unnamed shapes, defaulted reader fields, enum defaults, reader name then alias against writer names) are accepted; memo written only from the inner result keyed by both schemas; reader-side provenance of the enum default and symbol list; the resolver matches record fields in the checker's order (imported)",
                 "static analysis: variant-partitioned path summaries of checker x resolver x decoder over MIR + shape rules")
CLAIMS["C10"] = ("serializer/parser agreement per node kind: every key written explicitly is structural for the parser (or withheld from the fixed's attribute loop by a re-verified skip list) and every structural key is written; the logicalType literal and base type written for each of the 16 logical shapes are the ones on which the parser builds that shape; namespace is written wherever name is; references are written as full names; the 8 primitive names map back to the same variant; attribute loops walk the attribute map itself and constant skip lists are subsets of the explicitly written keys",
                 "static analysis: literal/key tables of the serializers (variant-partitioned) vs the parser's structural-key sets and match arms over MIR")
CLAIMS["C15"] = ("per Codec variant the compress and decompress arms call the dual library entry points of the stream format the specification names (raw deflate, raw snappy blocks, bzip2, xz, zstd; no zlib wrapper, no framed snappy); snappy trailer = big-endian CRC-32 of the uncompressed bytes, verified against the decoded bytes with a mismatch edge that is an error; every decompress arm bounds its output by the allocation limit; the compression level written to the header is the one used to compress and the one the reader rebuilds; results replace the caller's buffer; the output bound is the configured limit itself",
                 "static analysis: variant-partitioned call inventory vs a pairing table + def-use/edge rules over MIR")
CLAIMS["C16"] = ("for every scalar serde data-model method and schema shape (146 cells today): the stream tokens SchemaAwareSerializer writes and SchemaAwareDeserializer reads are those the generic decoder reads for that shape, and both sides accept the same shapes; under unions the branch index comes first; imported byte-count (C13) and block-framing (C02) obligations of the serde writers/readers; RecordSerializer writes in schema order (compare position, cache early fields, flush all consecutive cached fields in a loop, fill defaults in a loop); composite methods accept the same shapes on both sides; schema-less to_value / from_value scalar tables agree with resolver, decoder and schema-aware serializer",
                 "static analysis: variant-partitioned path summaries keyed on the self.schema field over MIR, three-way table comparison + loop/def-use shape rules")
CLAIMS["C17"] = ("translation validation over a generated corpus (86 types quick / 266 thorough: every rename_all rule x tricky identifiers, renames, skips, defaults, aliases, namespaces, nesting, recursion, repeated named types, unit enums) compiled against the current tree and never run: the names, order and field types in the AvroSchema derive's expansion equal those in serde's expansion of the same type; every derived named type answers with a reference when already seen and registers its name before building nested schemas; the corpus compiles; shape comparison covers flatten, transparent, tuple/newtype/generic structs, enums with data (union of records), bare unions; every named definition in an expansion is guarded; wrapper impls pass on defaults only with the schema; union builder pairing and schema walks of the derive support",
                 "static analysis of generated programs: MIR of the derive expansions vs serde's expansions (cross-derive agreement)")
NA_DEFAULT = "check under construction in this round (see DESIGN.md); not yet claimed"


def main():
    checks = []
    na = []
    for p in props:
        pid = p["id"]
        if pid in CLAIMS and os.path.exists(os.path.join(VERIF, "rules", pid.lower() + ".py")):
            text, tech = CLAIMS[pid]
            checks.append({
                "property_id": pid,
                "quick_cmd": "./check %s --tier quick" % pid,
                "thorough_cmd": "./check %s --tier thorough" % pid,
                "evidence_file": "evidence/%s.json" % pid,
                "replay_cmd_template": "./check %s --replay {path}" % pid,
                "engine": "avrolint",
                "level_claimed": {"category": "other",
                                  "text": "static analysis deciding structural necessary conditions of the property on the current source: " + text + ". It does not decide the run-time behaviour itself.",
                                  "design_ref": "DESIGN.md section 3, " + pid},
                "level_note": "trusts rustc's MIR construction and trait resolution, std/serde/codec libraries, and the transcribed specification tables",
                "technique": tech,
            })
        else:
            na.append({"property_id": pid, "reason": NA.get(pid, NA_DEFAULT)})
    m = {
        "version": 1,
        "setup_cmd": "cd /verif && ./setup.sh",
        "hooks": {"guard": "none", "enable": "no hooks: the checks analyse the unmodified sources through a rustc_private driver (RUSTC_WORKSPACE_WRAPPER under cargo +nightly check)",
                  "baseline_off_cmd": "cd /repo && cargo nextest run --workspace --no-fail-fast --offline", "source_commits": [], "add_only": True},
        "engines": [{"name": "avrolint", "path": "driver/", "serves_properties": [c["property_id"] for c in checks],
                     "kind_free_text": "rustc_private MIR fact extractor (driver/) + python analyses (analysis/) + per-property rules (rules/)"}],
        "checks": checks,
        "not_applicable": na,
        "notes": "all checks are static analyses of /repo's current working tree (facts re-extracted whenever the tree hash changes); see DESIGN.md",
    }
    with open(os.path.join(VERIF, "MANIFEST.json"), "w") as fh:
        json.dump(m, fh, indent=1)
    print("manifest: %d checks, %d not applicable" % (len(checks), len(na)))


NA = {}

if __name__ == "__main__":
    main()
