#!/usr/bin/env python3
"""debug aid: pretty-print MIR-lite bodies.  usage: dump.py <path-substring> [--list] [--crate c]"""
import os
import sys
HERE = os.path.dirname(os.path.abspath(__file__))
sys.path.insert(0, os.path.join(HERE, "..", "analysis"))
import facts as factsmod
from mir import Program, place_str, callee_names


def opstr(o):
    k = o.get("k")
    if k in ("copy", "move"):
        return ("" if k == "copy" else "move ") + place_str(o["pl"])
    s = "const"
    for key in ("int", "str", "bytes", "item", "fn", "ctor", "closure", "float", "bool"):
        if key in o:
            s += " %s=%r" % (key, o[key])
    if "res" in o:
        s += " res=%s" % o["res"]
    if "ga" in o and o["ga"]:
        s += " ga=%s" % o["ga"]
    if s == "const":
        s += " " + str({k_: v for k_, v in o.items() if k_ != "k"})[:80]
    return s


def rvstr(rv):
    r = rv["r"]
    if r == "use":
        return opstr(rv["o"])
    if r in ("ref", "rawptr"):
        return "&%s%s" % ("mut " if rv.get("mut") else "", place_str(rv["pl"]))
    if r == "cfd":
        return "deref_copy " + place_str(rv["pl"])
    if r == "discr":
        return "discriminant(%s) [%s]" % (place_str(rv["pl"]), rv.get("adt"))
    if r == "bin":
        return "%s(%s, %s)" % (rv["op"], opstr(rv["a"]), opstr(rv["b"]))
    if r == "un":
        return "%s(%s)" % (rv["op"], opstr(rv["a"]))
    if r == "cast":
        return "%s as %s (%s)" % (opstr(rv["o"]), rv.get("ty"), rv.get("kind"))
    if r == "agg":
        return "agg %s %s::%s(%s)" % (rv.get("ak"), rv.get("adt", rv.get("def", "")), rv.get("variant", ""), ", ".join(opstr(o) for o in rv["ops"]))
    if r == "repeat":
        return "[%s; %s]" % (opstr(rv["o"]), rv.get("n"))
    return str(rv)[:160]


def dump(b):
    print("fn %s  [%s] %s:%s argc=%d ret=%s" % (b.path, b.kind, b.file, b.line, b.argc, b.ret))
    if b.raw.get("bounds"):
        print("  bounds:", b.raw["bounds"])
    for i, l in enumerate(b.locals):
        print("  _%d: %s %s" % (i, l["ty"], l.get("name") or ""))
    for bi, blk in enumerate(b.blocks):
        print(" bb%d:" % bi)
        for st in blk["stmts"]:
            if st["s"] == "assign":
                print("    %s = %s" % (place_str(st["pl"]), rvstr(st["rv"])))
            else:
                print("    %s" % str(st)[:160])
        t = blk["term"]
        k = t["t"]
        if k == "call":
            print("    %s = CALL %s(%s) -> bb%s  [ln %s]" % (place_str(t["dest"]), " | ".join(callee_names(t["func"])) + (" ga=%s" % t["func"].get("ga") if t["func"].get("ga") else "") or opstr(t["func"]),
                                                            ", ".join(opstr(a) for a in t["args"]), t.get("target"), t.get("ln")))
        elif k == "switch":
            print("    SWITCH %s %s else bb%s" % (opstr(t["discr"]), ["%s->bb%s" % (v, tg) for v, tg in t["targets"]], t["otherwise"]))
        elif k == "assert":
            print("    ASSERT %s %s -> bb%s" % (opstr(t["cond"]), t.get("kind"), t["target"]))
        else:
            print("    %s %s" % (k.upper(), {k_: v for k_, v in t.items() if k_ not in ("t",)}))


def main():
    pat = sys.argv[1]
    prog = Program(factsmod.extract())
    crate = None
    if "--crate" in sys.argv:
        crate = sys.argv[sys.argv.index("--crate") + 1]
    hits = [b for k, b in sorted(prog.bodies.items()) if pat in k and (crate is None or b.crate == crate)]
    if "--list" in sys.argv:
        for b in hits:
            print(b.key, b.kind, "%s:%s" % (b.file, b.line), "blocks=%d" % b.n)
        return
    for b in hits:
        dump(b)
        print()


if __name__ == "__main__":
    main()
