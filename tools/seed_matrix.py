#!/usr/bin/env python3
"""re-run every claimed check against every seeded change (patched scratch copies of /repo, never /repo itself)
and refresh seeded/<id>/meta.json {checks, detected_by}.   usage: seed_matrix.py [id-prefix ...]"""
import json
import os
import sys
from concurrent.futures import ThreadPoolExecutor
VERIF = os.path.dirname(os.path.dirname(os.path.abspath(__file__)))
sys.path.insert(0, os.path.join(VERIF, "selftest"))
import mutate

man = json.load(open(os.path.join(VERIF, "MANIFEST.json")))
PIDS = [c["property_id"] for c in man["checks"]]
ids = sorted(d for d in os.listdir(os.path.join(VERIF, "seeded")) if os.path.exists(os.path.join(VERIF, "seeded", d, "patch.diff")))
if len(sys.argv) > 1:
    ids = [i for i in ids if any(i.startswith(p) for p in sys.argv[1:])]


def one(i):
    d = os.path.join(VERIF, "seeded", i)
    pf = os.path.join(d, "patch_rebased.diff") if os.path.exists(os.path.join(d, "patch_rebased.diff")) else os.path.join(d, "patch.diff")
    res = mutate.run_on_patch(pf, PIDS)
    det = {}
    for p, (rc, out) in res.items():
        fired = rc == 1 and ("VIOLATION property=%s" % p) in out
        det[p] = {"fired": fired, "rc": rc, "violations": [ln.strip()[len("violation: "):] for ln in out.splitlines() if ln.strip().startswith("violation:")][:6]}
    mp = os.path.join(d, "meta.json")
    meta = json.load(open(mp))
    meta["checks"] = det
    meta["detected_by"] = sorted(p for p, x in det.items() if x["fired"])
    meta["checks_run"] = PIDS
    json.dump(meta, open(mp, "w"), indent=1)
    return i, meta["breaks_property"], meta["detected_by"], sorted(p for p, x in det.items() if x["rc"] not in (0, 1))


with ThreadPoolExecutor(max_workers=int(os.environ.get("VERIF_SELFTEST_JOBS", "4"))) as ex:
    for i, prop, det, bad in ex.map(one, ids):
        own = "OWN" if prop in det else "   "
        print("%-8s breaks %s  %s detected_by=%s%s" % (i, prop, own, det, ("  MACHINERY rc!=0/1: %s" % bad) if bad else ""))
