"""C18 — single-object messages carry the spec header and reject foreign messages.

Structural clauses decided:
 R1 header bytes   RabinFingerprintHeader::build_header builds a 10-element array whose first two
                   operands are the constants 0xC3, 0x01 and whose remaining eight are
                   fingerprint.bytes[0..7] in order; from_schema instantiates Schema::fingerprint
                   with rabin::Rabin (whose digest is CRC-64-AVRO little-endian: C12.R3).
 R2 reader         read_header is called before the decode in read_value and read_deser and its
                   error is propagated; it reads exactly expected_header.len() bytes with
                   read_exact, compares the whole vectors, and the unequal edge is an Err.
 R3 writer buffer  in GenericSingleObjectWriter::write_value_ref, once the datum was appended to
                   self.buffer, every path to the return passes truncate(self.buffer, original_length)
                   with original_length read before the append (no early exit in between).
 R4 typed writers  SpecificSingleObjectWriter::write_value validates+encodes before the first sink
                   write and the message buffer starts as a copy of the header; write_ref writes the
                   header before serializing; write_value_ref_owned_resolved validates before it
                   encodes and its reject edge does not encode.
"""
import facts as factsmod
from mir import Program, callee_names, op_local, result_edges, edge_only_region, calls_named
import common
import readset

GW = "writer::single_object::GenericSingleObjectWriter::"
SW = "writer::single_object::SpecificSingleObjectWriter::<T>::"
GR = "reader::single_object::GenericSingleObjectReader::"


def get(prog, rep, rule, path):
    try:
        return prog.body(path)
    except KeyError as e:
        rep.anchor_error(rule, str(e))
        return None


def run(rep, tier="quick", replay=None, evidence_dir=None, collect_only=False):
    prog = Program(factsmod.extract())
    rep.rule("C18.R1", "header = C3 01 + fingerprint bytes 0..7; fingerprint is Rabin")
    rep.rule("C18.R2", "reader checks the whole header with read_exact + compare before decoding")
    rep.rule("C18.R3", "generic writer's reusable buffer is truncated back to the header on every exit")
    rep.rule("C18.R4", "typed writers: nothing reaches the sink before validation; header precedes datum")

    # ---------- R1 ----------
    b = get(prog, rep, "C18.R1", "<headers::RabinFingerprintHeader as headers::HeaderBuilder>::build_header")
    if b is not None:
        arrs = [(bi, st) for bi, si, st in b.stmts() if st["s"] == "assign" and st["rv"]["r"] == "agg" and st["rv"].get("ak") == "array"]
        ok = len(arrs) == 1 and len(arrs[0][1]["rv"]["ops"]) == 10
        if rep.ob("C18.R1", "build_header constructs one 10-byte array", ok, "found %s" % [len(a[1]["rv"]["ops"]) for a in arrs], b.loc()):
            ops = arrs[0][1]["rv"]["ops"]
            rep.ob("C18.R1", "header starts with the marker bytes C3 01", ops[0].get("int") == 0xC3 and ops[1].get("int") == 0x01,
                   "first two bytes are %s %s" % (ops[0].get("int"), ops[1].get("int")), b.loc(arrs[0][0]))
            idx = []
            for o in ops[2:]:
                cr = b.call_result_of(o)
                if cr and callee_names(cr[1]["func"])[0] in ("std::ops::Index::index",) and b.opdesc(cr[1]["args"][0]) == "self.fingerprint.bytes":
                    idx.append(cr[1]["args"][1].get("int"))
                else:
                    idx.append(None)
            rep.ob("C18.R1", "header bytes 2..9 are fingerprint.bytes[0..7] in order", idx == list(range(8)), "indices used: %s" % idx, b.loc(arrs[0][0]))
    b = get(prog, rep, "C18.R1", "headers::RabinFingerprintHeader::from_schema")
    if b is not None:
        fp = calls_named(b, "schema::Schema::fingerprint")
        rep.ob("C18.R1", "from_schema uses Schema::fingerprint::<Rabin>", len(fp) == 1 and fp[0][1]["func"].get("ga") == ["rabin::Rabin"],
               "generic args: %s" % [t["func"].get("ga") for _, t in fp], b.loc())
    # default header builders of the generic reader/writer and typed writer use RabinFingerprintHeader::from_schema
    n_def = 0
    for body in prog.by_crate["apache_avro"]:
        if ("single_object" in body.path) and calls_named(body, "headers::RabinFingerprintHeader::from_schema"):
            n_def += 1
    rep.floor("C18.R1", "single-object constructors that default to the Rabin header", n_def, 3)

    # ---------- R2 ----------
    rh = get(prog, rep, "C18.R2", GR + "read_header")
    if rh is not None:
        rx = calls_named(rh, "std::io::Read::read_exact")
        fe = calls_named(rh, "std::vec::from_elem")
        eq = [(bi, t) for bi, t in rh.calls() if callee_names(t["func"])[0] in ("std::cmp::PartialEq::eq", "std::cmp::PartialEq::ne")
              and "self.expected_header" in [rh.opdesc(a) for a in t["args"]]]
        ok = len(rx) == 1 and len(fe) == 1 and len(eq) == 1
        if rep.ob("C18.R2", "read_header: one buffer, one read_exact, one whole-vector comparison", ok, "read_exact=%d from_elem=%d eq=%d" % (len(rx), len(fe), len(eq)), rh.loc()):
            size = fe[0][1]["args"][1]
            cr = rh.call_result_of(size)
            rep.ob("C18.R2", "read_header reads exactly expected_header.len() bytes",
                   cr is not None and callee_names(cr[1]["func"])[0].endswith("::len") and rh.opdesc(cr[1]["args"][0]) == "self.expected_header"
                   and rh.opdesc(rx[0][1]["args"][1]) == rh.pldesc(fe[0][1]["dest"]),
                   "the buffer filled by read_exact must be sized by the expected header", rh.loc(fe[0][0]))
            other = [a for a in eq[0][1]["args"] if rh.opdesc(a) != "self.expected_header"][0]
            rep.ob("C18.R2", "read_header compares the bytes read with the expected header", rh.opdesc(other) == rh.pldesc(fe[0][1]["dest"]), "compares %s" % rh.opdesc(other), rh.loc(eq[0][0]))
            is_ne = callee_names(eq[0][1]["func"])[0].endswith("::ne")
            d = eq[0][1]["dest"]["l"]
            sw = None
            for sbi in range(rh.n):
                t = rh.blocks[sbi]["term"]
                if t["t"] == "switch" and op_local(t["discr"]) == d:
                    sw = (sbi, t)
            good = False
            if sw:
                tg = dict(sw[1]["targets"])
                false_t, true_t = tg.get(0), sw[1]["otherwise"]
                differ_t = true_t if is_ne else false_t
                reg = edge_only_region(rh, sw[0], differ_t)
                good = reg is not None and not readset.ok_constructions(rh, reg) and any(
                    st["s"] == "assign" and st["rv"]["r"] == "agg" and st["rv"].get("variant") == "Err" for x in reg for st in rh.blocks[x]["stmts"])
            rep.ob("C18.R2", "header mismatch edge is an Err and never Ok", good, "a foreign message would be decoded", rh.loc(eq[0][0]))
            rep.ob("C18.R2", "the comparison happens after the read", rh.dominates(rx[0][0], eq[0][0]), "", rh.loc())
    for fn, dec in (("read_value", "decode::decode_internal"), ("read_deser", "serde::Deserialize::deserialize")):
        r = get(prog, rep, "C18.R2", GR + fn)
        if r is None:
            continue
        hc = calls_named(r, GR + "read_header")
        dc = calls_named(r, dec)
        ok = len(hc) == 1 and len(dc) == 1
        if ok:
            e = result_edges(r, hc[0][1]["dest"]["l"])
            ok = len(e) == 1 and r.dominates(e[0][1], dc[0][0]) and edge_only_region(r, e[0][0], e[0][1]) is not None
        rep.ob("C18.R2", "%s decodes only after read_header succeeded" % fn, ok, "the datum must never be decoded when the header was not accepted", r.loc())

    # ---------- R3 ----------
    w = get(prog, rep, "C18.R3", GW + "write_value_ref")
    if w is not None:
        app = [(bi, t) for bi, t in w.calls() if any(a.get("k") in ("copy", "move") and w.pldesc(a["pl"]) == "self.buffer" and ty.startswith("&mut") for a, ty in zip(t["args"], t["argtys"]))
               and not callee_names(t["func"])[0].startswith("std::vec::Vec")]
        lens = [(bi, t) for bi, t in calls_named(w, "std::vec::Vec::<T, A>::len") if w.pldesc(t["args"][0]["pl"]) == "self.buffer"]
        tr = [(bi, t) for bi, t in calls_named(w, "std::vec::Vec::<T, A>::truncate") if w.pldesc(t["args"][0]["pl"]) == "self.buffer"]
        ok = len(app) == 1 and len(tr) >= 1 and len(lens) >= 1
        if rep.ob("C18.R3", "write_value_ref appends to self.buffer once and truncates it", ok, "append=%d truncate=%d len=%d" % (len(app), len(tr), len(lens)), w.loc()):
            abi = app[0][0]
            saved = [l for l in lens if w.dominates(l[0], abi)]
            good = False
            for tbi, tt in tr:
                r = w.resolve_operand(tt["args"][1])
                if w.postdominates(tbi, abi) and any(r and r[0] == l[1]["dest"]["l"] for l in saved):
                    good = True
            rep.ob("C18.R3", "every exit after the append passes truncate(self.buffer, length saved before the append)", good,
                   "after a failed encode or sink error the buffer keeps the datum: the next message is prefixed with stale bytes or the writer is wedged", w.loc(abi))
            # the sink write happens between append and truncate and writes self.buffer
            # (closure body of and_then or direct)
            wa = []
            for body in prog.with_closures(w):
                for bi, t in calls_named(body, "std::io::Write::write_all"):
                    wa.append((body, bi, t))
            rep.ob("C18.R3", "the whole buffer (header + datum) is written with one write_all", len(wa) == 1, "found %d sink writes" % len(wa), w.loc())
        # state guard: header length range test dominates the append
        cont = calls_named(w, "std::ops::RangeInclusive::<Idx>::contains")
        rep.ob("C18.R3", "write_value_ref checks the buffer holds just a header before appending", len(cont) == 1 and app and w.dominates(cont[0][0], app[0][0]), "", w.loc())

    # ---------- R4 ----------
    v = get(prog, rep, "C18.R4", "writer::single_object::write_value_ref_owned_resolved")
    if v is not None:
        val = calls_named(v, "types::Value::validate_internal")
        enc = calls_named(v, "encode::encode_internal")
        ok = len(val) == 1 and len(enc) == 1 and v.dominates(val[0][0], enc[0][0])
        if ok:
            # switch on the Option<String> returned by validate: Some => reject
            d = val[0][1]["dest"]["l"]
            ok = False
            for bi, si, st in v.stmts():
                if st["s"] == "assign" and st["rv"]["r"] == "discr" and st["rv"]["pl"]["l"] == d and not st["rv"]["pl"]["p"]:
                    dl = st["pl"]["l"]
                    for sbi in range(v.n):
                        t = v.blocks[sbi]["term"]
                        if t["t"] == "switch" and op_local(t["discr"]) == dl:
                            tg = dict(t["targets"])
                            some_t = tg.get(1, t["otherwise"])
                            none_t = tg.get(0, t["otherwise"])
                            reg = edge_only_region(v, sbi, some_t)
                            ok = reg is not None and enc[0][0] not in reg and v.dominates(none_t, enc[0][0]) and not readset.ok_constructions(v, reg)
        rep.ob("C18.R4", "write_value_ref_owned_resolved validates before encoding; the reject edge encodes nothing", ok,
               "a rejected value must not reach the encoder / output", v.loc())
    sv = get(prog, rep, "C18.R4", SW + "write_value")
    if sv is not None:
        enc = calls_named(sv, "writer::single_object::write_value_ref_owned_resolved")
        wa = calls_named(sv, "std::io::Write::write_all", "std::io::Write::write")
        ok = len(enc) == 1 and len(wa) >= 1
        if ok:
            e = result_edges(sv, enc[0][1]["dest"]["l"])
            ok = len(e) == 1 and all(sv.dominates(e[0][1], x[0]) for x in wa)
        rep.ob("C18.R4", "SpecificSingleObjectWriter::write_value: no byte reaches the sink before validation+encoding succeeded", ok,
               "the header would be written for a value that is then rejected", sv.loc())
        # message buffer = clone of self.header
        okh = False
        if enc:
            buf = enc[0][1]["args"][2]
            root = sv.resolve_operand(buf)
            if root:
                sd = sv.single_def(root[0])
                if sd and sd[2] == "call" and callee_names(sd[3]["func"])[0].endswith("clone") and sv.opdesc(sd[3]["args"][0]) == "self.header":
                    okh = True
        if not okh and enc:
            # equivalent form: the header is written to the sink first, then the datum is encoded after it
            hw = [(bi, t) for bi, t in calls_named(sv, "std::io::Write::write_all") if sv.opdesc(t["args"][1]) == "self.header"]
            okh = len(hw) == 1 and sv.dominates(hw[0][0], enc[0][0])
        rep.ob("C18.R4", "write_value: header precedes datum (message buffer starts as a copy of the header, or header written first)", okh, "", sv.loc())
    sr = get(prog, rep, "C18.R4", SW + "write_ref")
    if sr is not None:
        wa = [(bi, t) for bi, t in calls_named(sr, "std::io::Write::write_all") if sr.opdesc(t["args"][1]) == "self.header"]
        se = calls_named(sr, "serde::Serialize::serialize")
        rep.ob("C18.R4", "write_ref writes the header before serializing the datum", len(wa) == 1 and len(se) == 1 and sr.dominates(wa[0][0], se[0][0]), "", sr.loc())

    # ---------- R5: the default header is the fingerprint of the schema the writer / reader actually uses ----------
    rep.rule("C18.R5", "a default header is computed from the same schema object that the reader / writer resolves and encodes with")
    RESOLVERS = ("schema::resolve::ResolvedOwnedSchema::new", "schema::resolve::ResolvedSchema::<'s>::new", "std::convert::TryFrom::try_from",
                 "writer::single_object::GenericSingleObjectWriter::new_with_capacity_and_header_builder", "reader::single_object::GenericSingleObjectReader::new_with_header_builder")
    n5 = 0
    for b in prog.by_crate["apache_avro"]:
        for bi, t in calls_named(b, "headers::RabinFingerprintHeader::from_schema"):
            n5 += 1
            a = t["args"][0]
            owner = b.path if b.kind != "Closure" else b.parent
            cr = b.call_result_of(a)
            ok = False
            why = "header schema = %s" % b.opdesc(a)
            if cr and callee_names(cr[1]["func"])[0].endswith("::get_root_schema"):
                ok = True   # root schema of the resolved schema the object holds
            else:
                ra = b.resolve_operand(a) if a.get("k") in ("copy", "move") else None
                # same root local handed to the function that builds the resolved schema / stores the schema
                fam = prog.with_closures(prog.bodies.get(owner, b)) if b.kind == "Closure" else prog.with_closures(b)
                for ob in [b]:
                    for cbi, ct in ob.calls():
                        nm = callee_names(ct["func"])
                        if not nm or not any(n in RESOLVERS for n in nm):
                            continue
                        for x in ct["args"]:
                            if x.get("k") in ("copy", "move"):
                                rx = ob.resolve_operand(x)
                                if ra and rx and rx[0] == ra[0]:
                                    ok = True
                if not ok and b.kind == "Closure" and ra is not None and ra[0] == 1:
                    # a captured variable of a builder closure: it must be the builder's own schema member
                    ok = b.opdesc(a) in ("schema", "self.schema")
                    why = "header schema is the captured `%s`" % b.opdesc(a)
            rep.ob("C18.R5", "%s: default header comes from the schema in use" % owner, ok,
                   why + ": a header built from another schema object (e.g. a freshly derived one) carries a fingerprint that readers of the real schema reject", b.loc(bi))
    rep.floor("C18.R5", "default-header sites", n5, 4)

    if collect_only:
        return rep
    rep.floor("C18", "obligations", len(rep.obligations), 18)
    rep.not_decided = ["fingerprint values and bit-level header mismatch for concrete messages", "round trip of values through both readers (needs execution)"]
    return common.finish(rep, level="other",
                         explanation="constant/aggregate inspection of the header builder, dominance and edge-region rules on the single-object reader and writers, buffer save/truncate pairing by post-dominance",
                         assumptions=["Vec<u8> equality compares all bytes", "Rabin digest correctness is C12's clause"], evidence_dir=evidence_dir)
