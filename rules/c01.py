"""C01 — datum round trip: decoding an encoded value returns the same value.

Structural clauses decided (encoder and decoder against each other; the specification table is C02's oracle, not used here
except to name the Value variant V(S) that represents a schema shape S):
 R1 wire agreement   for every schema shape S the stream tokens (INT/LONG class, raw moves with their static lengths,
                     recursion, loop depth) on the success paths of encode_internal(V(S), S) and decode_internal(S) agree
                     token by token, and both sides use the same conversions (byte order, text/binary form). Arrays and maps:
                     the writer's count + items + 0 terminator against the reader's block loop.
 R2 totality         decode_internal has a success path for every shape and encode_internal for every (V(S), S).
 R3 exact consumption  the datum readers hand the caller's reader itself to the decoder: no function with a Read-bounded
                     parameter wraps that reader in a read-ahead adapter (BufReader / Bytes), so a decode never consumes more
                     than the datum; the generic datum reader passes its `reader` argument straight to decode_internal.
 R4 validation is read-only  validate_internal takes `&Value`, and Value has no interior mutability (compiler fact), so
                     "the result is the same whether or not the writer validates first" can only fail through the
                     accept/encode gap that C07 decides.
Not decided: equality of values (varint arithmetic, sign extension, float bits, NaN payloads), byte-exact consumption for
particular values, recursion through the names table for specific schemas.
"""
import facts as factsmod
from mir import Program, callee_names, calls_named, op_local
import os
import common
import readset
import wiretab


def strip_star(seq_):
    return [x[:-1] if x.endswith("*") else x for x in seq_]


def run(rep, tier="quick", replay=None, evidence_dir=None):
    prog = Program(factsmod.extract())
    rep.rule("C01.R1", "encoder and decoder agree on the wire tokens of every schema shape")
    rep.rule("C01.R2", "every shape can be decoded and its representing value encoded")
    rep.rule("C01.R3", "no read-ahead on the caller's reader")
    rep.rule("C01.R4", "validation cannot change the value")
    T = wiretab.tables(prog)
    sp = wiretab.spec()
    dec = T["dec"]
    rep.floor("C01.R1", "schema shapes", len(dec), 31)
    for s in sorted(dec):
        d = dec[s]
        loc = d["tokens"][0].loc if d["tokens"] else ""
        rep.ob("C01.R2", "decode_internal can succeed for %s" % s, d["exits"]["can_ok"] and d["paths"] is not None and len(d["paths"]) >= 1, "no success path", loc)
        v = sp.get(s, {}).get("value")
        if v is None:
            rep.ob("C01.R1", "shape %s has a representing Value variant in the table" % s, False, "unknown shape", loc)
            continue
        if not v:
            continue   # Ref: follows the names table (recursion), both sides RECUR
        allowed = set([v] + sp[s].get("via", []))
        rep.ob("C01.R1", "%s: the decoder returns the variant the encoder is given (Value::%s)" % (s, v), v in d["values_ok"] and set(d["values_ok"]) <= allowed,
               "decoder builds %s on its success paths: decode(encode(Value::%s)) would come back as another variant" % (d["values_ok"], v), loc)
        es = wiretab.enc_for(T, v, s)
        if not es:
            rep.ob("C01.R2", "encode_internal has an arm for (%s, %s)" % (v, s), False, "", "")
            continue
        for name, e in es:
            eloc = e["tokens"][0].loc if e["tokens"] else loc
            if not rep.ob("C01.R2", "encode_internal can succeed for (%s, %s)" % (v, s), e["can_ok"] and e["paths"], "no success path: a decoded %s could not be written back" % s, eloc):
                continue
            ep, dp = e["paths"], d["paths"]
            if s in ("Array", "Map"):
                full = [p for p in ep if len(p) > 1]
                empty = [p for p in ep if len(p) == 1]
                ok = len(full) == 1 and len(empty) == 1 and len(dp) == 1 and empty[0][0].startswith("RAW:1=0") and full[0][0] == "LONG" and full[0][-1] == "RAW:1=0" \
                    and dp[0][0] == "BLOCKHDR*"
                if ok:
                    items_e = wiretab.stream(full[0][1:-1])
                    items_d = wiretab.stream(strip_star(dp[0][1:]))
                    ok = wiretab.streams_agree(items_e, items_d)
                rep.ob("C01.R1", "%s: writer (count, items, 0 terminator / lone 0 when empty) mirrors the reader's block loop" % s, ok,
                       "writer paths %s, reader paths %s" % (ep, dp), eloc)
                continue
            if s == "BigDecimal":
                # the writer stages the datum in serialize_big_decimal (which adds the outer length prefix itself) and then
                # writes that buffer raw; the reader reads length-prefixed bytes and hands them to deserialize_big_decimal
                w2 = wiretab.Wire(prog)
                w2.leaf.pop("bigdecimal::serialize_big_decimal", None)
                w2.leaf.pop("bigdecimal::deserialize_big_decimal", None)
                ser = wiretab.paths_of(w2.summary("bigdecimal::serialize_big_decimal", {}))
                des = wiretab.paths_of(w2.summary("bigdecimal::deserialize_big_decimal", {}))
                ok = bool(ser) and bool(des) and len(ser) == 1 and len(des) == 1 and len(ep) == 1 and len(dp) == 1
                if ok:
                    outer_w, inner_w = ser[0][-2:], ser[0][:-2]
                    ok = ep[0] == ["BIGDEC", "RAW:VAR"] and dp[0][-1] == "BIGDEC" and wiretab.streams_agree(wiretab.stream(outer_w), wiretab.stream(dp[0][:-1])) \
                        and wiretab.streams_agree(wiretab.stream(inner_w), wiretab.stream(des[0])) and wiretab.conv(inner_w) == wiretab.conv(des[0])
                rep.ob("C01.R1", "BigDecimal: serialize_big_decimal's framing (inner fields, then one outer length prefix) mirrors bytes-decode + deserialize_big_decimal", ok,
                       "writer %s via %s; reader %s via %s" % (ep, ser, dp, des), eloc)
                continue
            if len(ep) != len(dp):
                rep.ob("C01.R1", "%s: writer and reader have the same number of success shapes" % s, False, "writer paths %s, reader paths %s" % (ep, dp), eloc)
                continue
            for pe, pd in zip(ep, dp):
                se, sd = wiretab.stream(pe), wiretab.stream(pd)
                rep.ob("C01.R1", "%s: bytes written = bytes read (%s)" % (s, " ".join(se) or "nothing"), wiretab.streams_agree(se, sd),
                       "encode_internal(%s, %s) writes %s but decode_internal(%s) reads %s" % (v, s, se, s, sd), eloc)
                ce, cd = wiretab.conv(pe), wiretab.conv(pd)
                rep.ob("C01.R1", "%s: same conversions on both sides (%s)" % (s, " ".join(ce) or "none"), ce == cd,
                       "writer converts with %s, reader with %s" % (ce, cd), eloc)
    # ---------------- R3
    rf = readset.read_functions(prog)
    rep.analysed["functions with a Read-bounded parameter that read"] = len(rf)
    rep.floor("C01.R3", "reading functions", len(rf), 40)
    bad = []
    for k, b in sorted(rf.items()):
        params = set(readset.read_params(b, prog))
        for bi, t in b.calls():
            nm = callee_names(t["func"])
            if not nm:
                continue
            ga = t["func"].get("ga") or []
            if ("io::BufReader" in nm[0] or "io::buffered::bufreader::BufReader" in nm[0] or nm[0].endswith("io::Read::bytes")) and ga:
                inner = ga[0].replace("&mut ", "").replace("&'_ mut ", "").replace("&", "").strip()
                if inner in params or ga[0] in params:
                    bad.append((b.path, nm[0], b.loc(bi)))
    rep.ob("C01.R3", "no read-ahead adapter is put on a caller-supplied reader", not bad,
           "a buffering adapter reads past the datum and the surplus is lost when it is dropped: %s" % bad, bad[0][2] if bad else "")
    rv = prog.bodies.get("reader::datum::GenericDatumReader::<'_>::read_value") or next((b for k, b in prog.bodies.items() if k.endswith("GenericDatumReader::<'_>::read_value") or k.endswith("GenericDatumReader<'s>::read_value")), None)
    if rv is None:
        cands = [b for k, b in prog.bodies.items() if "GenericDatumReader" in k and k.endswith("::read_value")]
        rv = cands[0] if cands else None
    if rv is None:
        rep.anchor_error("C01.R3", "GenericDatumReader::read_value")
    else:
        dc = calls_named(rv, "decode::decode_internal")
        ok = len(dc) == 1
        if ok:
            r = rv.resolve_operand(dc[0][1]["args"][3])
            ok = bool(r and 1 <= r[0] <= rv.argc and rv.local_name(r[0]) == "reader")
        rep.ob("C01.R3", "GenericDatumReader::read_value decodes from the caller's reader itself", ok, "", rv.loc())
    # reads on the caller's reader are exact and retried (C06.R4 instances): a datum decodes the same from a reader that
    # hands out its bytes in pieces
    import c06
    sub6 = common.Report("C06", tier, 0)
    c06.run(sub6, tier=tier, collect_only=True)
    n36 = 0
    for o in sub6.obligations:
        if o["rule"] == "C06.R4":
            n36 += 1
            rep.ob("C01.R3", "[C06.R4] " + o["instance"], o["ok"], o["detail"], o["loc"])
    rep.floor("C01.R3", "imported exact-read obligations", n36, 2)
    # ---------------- R6 no value-dependent rejection in the decoder beyond the listed structural tests
    rep.rule("C01.R6", "the datum decoder tests a decoded scalar only in the listed structural ways (end marker, uuid size, zig-zag parity): it accepts every value the encoder writes")
    import tomllib as _toml
    from mir import forward_taint
    with open(os.path.join(common.VERIF, "rules", "tables", "c01_decoded_value_tests.toml"), "rb") as fh:
        allowed_tests = _toml.load(fh).get("test", [])
    SRC = ("zag_i32", "zag_i64", "decode_long", "decode_int", "decode_len", "decode_seq_len", "decode_variable", "read_usize", "from_le_bytes", "from_be_bytes", "from_signed_bytes_be")
    found = {}
    nfun6 = 0
    for k_, b_ in sorted(prog.bodies.items()):
        if b_.crate != "apache_avro" or not b_.file.endswith(("avro/src/decode.rs", "avro/src/bigdecimal.rs", "avro/src/util.rs")):
            continue
        src_ = [t["dest"]["l"] for bi, t in b_.calls() if not t["dest"]["p"] and any(callee_names(t["func"])[0].split("::")[-1] == x or callee_names(t["func"])[0].endswith("::" + x) for x in SRC)]
        if not src_:
            continue
        nfun6 += 1
        tainted = forward_taint(b_, src_, through_calls=True)
        for bi, si, st in b_.stmts():
            if st["s"] == "assign" and st["rv"]["r"] == "bin" and st["rv"]["op"] in ("Lt", "Le", "Gt", "Ge", "Eq", "Ne"):
                ops_ = [st["rv"]["a"], st["rv"]["b"]]
                if any(op_local(o) in tainted for o in ops_ if o.get("k") in ("copy", "move")):
                    cst = [str(o.get("int")) for o in ops_ if o.get("k") == "const" and "int" in o]
                    key_ = (b_.path if b_.kind != "Closure" else b_.parent, st["rv"]["op"], cst[0] if cst else "<non-constant>")
                    found.setdefault(key_, []).append(b_.loc(bi))
    for key_, locs in sorted(found.items()):
        allow = [e for e in allowed_tests if (e["function"], e["op"], str(e["constant"])) == key_]
        budget = allow[0]["count"] if allow else 0
        rep.ob("C01.R6", "%s: test `decoded value %s %s` is a listed structural test" % key_, len(locs) <= budget,
               "the decoder rejects (or treats specially) some decoded values through this comparison, %d site(s), table allows %d: values the encoder writes may no longer decode" % (len(locs), budget), locs[0])
    rep.analysed["decoder functions scanned for tests on decoded scalars"] = nfun6
    rep.floor("C01.R6", "decoder functions that read scalars", nfun6, 8)
    # ---------------- R7 the serde datum writer frames values the way the decoder reads them (imported)
    rep.rule("C01.R7", "a datum written through the serde path is framed as the decoder reads it: block headers count whole items, union index and payload belong together, record fields come in schema order (C02.R3/R5, C16.R5 instances)")
    import c16
    sub16 = common.Report("C16", tier, 0)
    c16.run(sub16, tier=tier, collect_only=True)
    n7 = 0
    for o in sub16.obligations:
        if o["rule"] in ("C16.R4", "C16.R5"):
            n7 += 1
            rep.ob("C01.R7", "[%s] %s" % (o["rule"], o["instance"]), o["ok"], o["detail"], o["loc"])
    rep.floor("C01.R7", "imported serde-writer framing obligations", n7, 30)
    # ---------------- R4
    val = prog.body("types::Value::validate_internal")
    rep.ob("C01.R4", "validate_internal borrows the value immutably", val.local_ty(1).startswith("&types::Value") and not val.local_ty(1).startswith("&mut"), "self type %s" % val.local_ty(1), val.loc())
    adt = prog.adt("types::Value")
    rep.ob("C01.R4", "Value has no interior mutability (Freeze)", adt.get("freeze") is True, "freeze=%s" % adt.get("freeze"))

    # ---------------- R5 abandoned trial encodings
    rep.rule("C01.R5", "a failed trial encoding leaves no bytes: the scratch buffer is cleared on the failure edge before it is used again")
    import trial
    tr = [x for x in trial.scan(prog) if x["swallowed"]]
    for x in tr:
        rep.ob("C01.R5", "%s: %s(.., &mut %s) failed -> buffer reset before reuse" % (x["fn"], x["callee"], x["buffer"]), x["ok"],
               x["detail"] + "; the bytes of the abandoned attempt would be written in front of the next attempt", x["loc"])
    rep.floor("C01.R5", "trial encodings into a reused scratch buffer (encode_internal: bare record for a union)", len(tr), 1)

    rep.floor("C01", "obligations", len(rep.obligations), 110)
    rep.not_decided = ["equality of values (varint arithmetic, sign extension, float bits, NaN payloads)", "byte-exact consumption for particular values",
                       "namespace threading at Schema::Ref: the encoder passes the enclosing namespace where decoder/validator/resolver pass the resolved name's; the record arm re-derives it from the record's own name, no input was found on which the difference matters, so no rule is armed"]
    return common.finish(rep, level="other",
                         explanation="variant-partitioned path summaries of encode_internal and decode_internal compared token by token per schema shape (stream tokens + conversion tokens, one sequence per success path); read-ahead adapter lint over the Read-bounded functions; type facts for validation",
                         assumptions=["util::zig_*/zag_* are inverse of each other (arithmetic not decided)", "to_le_bytes/from_le_bytes and BigInt/uuid conversions are inverse pairs"], evidence_dir=evidence_dir)
