"""C15 — every codec round-trips every payload and interoperates with reference codecs.

Structural clauses decided (the codec libraries themselves are trusted):
 R1 paired formats   for every Codec variant, compress and decompress call the library entry points of the same stream
                     format, and that format is the one the specification names (tables/codec_pairs.toml): raw deflate (no
                     zlib wrapper), snappy raw blocks (not the framed format), bzip2, xz, zstd streams. Every variant has
                     an arm in both directions.
 R2 snappy trailer   compress appends u32::to_be_bytes(crc32(uncompressed input)); decompress cuts the last four bytes with a
                     checked subtraction, reads them with from_be_bytes, hashes the *decoded* bytes, and the `!=` edge is an
                     error; nothing is returned before the comparison.
 R3 output limits    every decompress arm bounds its output by the configured allocation limit (C05.R1 instances in
                     Codec::decompress are imported).
 R4 level plumbing   the compression level written to `avro.codec.compression_level` (Writer::header) and the one handed to
                     the encoder (Codec::compress) are the same settings field; the reader rebuilds the settings from that byte.
 R5 in-place result  both functions assign their result to `*stream` on every success path (the caller's buffer is replaced
                     by the transformed bytes), except the Null codec which leaves it alone.
Not decided: that the libraries round-trip every payload at every level; reference-tool interop (library behaviour).
"""
import os
import tomllib
import facts as factsmod
from mir import Program, callee_names, op_local, calls_named, edge_only_region
import common
import shape
from wire import Wire
from vpes import top_shapes


def base_root(b, op):
    """root local of a buffer operand, looking through x[..], deref and as_slice style calls"""
    cur = op
    for _ in range(6):
        if cur.get("k") not in ("copy", "move"):
            return None
        r = b.resolve_operand(cur)
        sd = b.single_def(r[0]) if r else None
        if sd and sd[2] == "call":
            n0 = callee_names(sd[3]["func"])
            if n0 and (n0[0] in ("std::ops::Index::index", "std::ops::IndexMut::index_mut") or n0[0].endswith(("::as_slice", "::as_mut_slice", "::as_ref", "::deref", "::deref_mut"))) and sd[3]["args"]:
                cur = sd[3]["args"][0]
                continue
        return r[0] if r else None
    return None


def lib_calls(b, reg):
    out = {}
    for bi in sorted(reg):
        t = b.blocks[bi]["term"]
        if t["t"] == "call":
            for n in callee_names(t["func"]):
                out.setdefault(n, bi)
    return out


def run(rep, tier="quick", replay=None, evidence_dir=None):
    prog = Program(factsmod.extract())
    rep.rule("C15.R1", "per codec, compress and decompress use the dual library entry points of the specified stream format")
    rep.rule("C15.R2", "snappy: big-endian CRC-32 of the uncompressed data appended / verified")
    rep.rule("C15.R3", "every decompress arm bounds its output by the allocation limit (imported C05.R1 instances)")
    rep.rule("C15.R4", "the level written to the header is the level used to compress")
    rep.rule("C15.R5", "the transformed bytes replace the caller's buffer")
    with open(os.path.join(common.VERIF, "rules", "tables", "codec_pairs.toml"), "rb") as fh:
        pairs = tomllib.load(fh)["codec"]
    w = Wire(prog)
    variants = [v["name"] for v in prog.adt("codec::Codec")["variants"]]
    rep.floor("C15.R1", "Codec variants (all features)", len(variants), 6)
    regs = {}
    for fn in ("compress", "decompress"):
        b = prog.body("codec::Codec::" + fn)
        vp = w.vpes(b)
        root = [r for r, a in vp.roots.items() if a == "codec::Codec"][0]
        for s, reg in top_shapes(vp, root):
            v = vp.shape_name(s, root)
            regs[(fn, v)] = (b, reg)
    for v in variants:
        if v not in pairs:
            rep.ob("C15.R1", "codec %s is listed in the pairing table" % v, False, "a new codec variant: add its library entry points to rules/tables/codec_pairs.toml", "")
            continue
        for fn in ("compress", "decompress"):
            if (fn, v) not in regs:
                rep.ob("C15.R1", "%s has an arm for %s" % (fn, v), False, "", "")
                continue
            b, reg = regs[(fn, v)]
            calls = lib_calls(b, reg)
            want = pairs[v][fn]
            ext = sorted(n for n in calls if n.split("::")[0] in ("miniz_oxide", "snap", "zstd", "bzip2", "liblzma", "flate2", "xz2", "lzma_rs", "zstd_safe"))
            if not want:
                rep.ob("C15.R1", "%s %s uses no compression library" % (fn, v), not ext, "calls %s" % ext, b.loc())
                continue
            hit = [n for n in ext if any(n.startswith(p) for p in want)]
            rep.ob("C15.R1", "%s %s calls %s" % (fn, v, " | ".join(want)), bool(hit), "library calls in this arm: %s" % ext, b.loc(calls[hit[0]]) if hit else b.loc())
            bad = [n for n in ext if any(f in n for f in pairs[v].get("forbidden", []))]
            rep.ob("C15.R1", "%s %s stays within the specified stream format" % (fn, v), not bad, "calls %s (another container format of the same library)" % bad, b.loc())
            other = [n for n in ext if not any(n.split("::")[0] == p.split("::")[0] for p in want)]
            rep.ob("C15.R1", "%s %s uses one compression library" % (fn, v), not other, "also calls %s" % other, b.loc())

    # ---------------------------------------------------------------- R2
    if ("compress", "Snappy") in regs and ("decompress", "Snappy") in regs:
        b, reg = regs[("compress", "Snappy")]
        c = dict((n, bi) for n, bi in lib_calls(b, reg).items())
        be = [bi for n, bi in c.items() if n == "core::num::<impl u32>::to_be_bytes"]
        le = [n for n in c if n.endswith("to_le_bytes") or n.endswith("to_ne_bytes")]
        upd = [(bi, t) for bi, t in calls_named(b, "crc32fast::Hasher::update") if bi in reg]
        fin = [(bi, t) for bi, t in calls_named(b, "crc32fast::Hasher::finalize") if bi in reg]
        enc = [(bi, t) for bi, t in calls_named(b, "snap::raw::Encoder::compress") if bi in reg]
        ok = len(be) == 1 and not le and len(upd) == 1 and len(fin) == 1 and len(enc) == 1
        rep.ob("C15.R2", "snappy compress: one CRC over the data, written big endian", ok, "to_be_bytes=%d other byte orders=%s update=%d finalize=%d" % (len(be), le, len(upd), len(fin)), b.loc())
        if ok:
            # hashed bytes and compressed bytes are the same input (the caller's stream)
            src_h = base_root(b, upd[0][1]["args"][1])
            src_c = base_root(b, enc[0][1]["args"][1])
            rep.ob("C15.R2", "snappy compress: the CRC covers the uncompressed input", src_h is not None and src_h == src_c and b.local_name(src_h) == "stream",
                   "hashes %s, compresses %s" % (b.local_name(src_h) if src_h else None, b.local_name(src_c) if src_c else None), b.loc(upd[0][0]))
            r = b.resolve_operand(b.blocks[be[0]]["term"]["args"][0])
            rep.ob("C15.R2", "snappy compress: the bytes written are the finalized CRC", bool(r and r[0] == fin[0][1]["dest"]["l"]), "", b.loc(be[0]))
        b, reg = regs[("decompress", "Snappy")]
        c = lib_calls(b, reg)
        fb = [bi for n, bi in c.items() if n == "core::num::<impl u32>::from_be_bytes"]
        oth = [n for n in c if n.endswith("from_le_bytes") or n.endswith("from_ne_bytes")]
        cs = [bi for n, bi in c.items() if n == "core::num::<impl usize>::checked_sub"]
        upd = [(bi, t) for bi, t in calls_named(b, "crc32fast::Hasher::update") if bi in reg]
        fin = [(bi, t) for bi, t in calls_named(b, "crc32fast::Hasher::finalize") if bi in reg]
        dec = [(bi, t) for bi, t in calls_named(b, "snap::raw::Decoder::decompress") if bi in reg]
        ok = len(fb) == 1 and not oth and len(cs) == 1 and len(upd) == 1 and len(fin) == 1 and len(dec) == 1
        rep.ob("C15.R2", "snappy decompress: checked length, one big-endian CRC read, one CRC over the data", ok,
               "from_be_bytes=%d other orders=%s checked_sub=%d update=%d finalize=%d" % (len(fb), oth, len(cs), len(upd), len(fin)), b.loc())
        if ok:
            hashed = base_root(b, upd[0][1]["args"][1])
            outbuf = base_root(b, dec[0][1]["args"][2])
            rep.ob("C15.R2", "snappy decompress: the CRC is computed over the decoded bytes", hashed is not None and hashed == outbuf and b.dominates(dec[0][0], upd[0][0]),
                   "hashes %s, decoded into %s" % (b.opdesc(upd[0][1]["args"][1]), b.opdesc(dec[0][1]["args"][2])), b.loc(upd[0][0]))
            # comparison expected != actual -> Err
            cmp_ok = False
            for bi, si, st in b.stmts():
                if bi in reg and st["s"] == "assign" and st["rv"]["r"] == "bin" and st["rv"]["op"] in ("Ne", "Eq"):
                    ra, rb = b.resolve_operand(st["rv"]["a"]) if st["rv"]["a"].get("k") in ("copy", "move") else None, b.resolve_operand(st["rv"]["b"]) if st["rv"]["b"].get("k") in ("copy", "move") else None
                    roots = set(x[0] for x in (ra, rb) if x)
                    if b.blocks[fb[0]]["term"]["dest"]["l"] in roots and fin[0][1]["dest"]["l"] in roots:
                        sw = shape.bool_switch(b, st["pl"]["l"])
                        if sw:
                            differ = sw[2] if st["rv"]["op"] == "Ne" else sw[1]
                            cmp_ok = shape.edge_must_err(b, sw[0], differ)
            rep.ob("C15.R2", "snappy decompress: a checksum mismatch is an error", cmp_ok, "", b.loc(fin[0][0]))

    # ---------------------------------------------------------------- R3 (import)
    import c05
    sub = common.Report("C05", tier, 0)
    c05.run(sub, tier=tier, collect_only=True)
    n3 = 0
    for o in sub.obligations:
        if o["rule"] == "C05.R1" and "codec::Codec::decompress" in o["instance"]:
            n3 += 1
            rep.ob("C15.R3", "[C05.R1] " + o["instance"], o["ok"], o["detail"], o["loc"])
    rep.floor("C15.R3", "bounded-output obligations in Codec::decompress", n3, 5)
    # ... and the bound is the configured limit itself, not a smaller figure derived from the size of the compressed input
    # (a payload that compresses better than the assumed ratio would be rejected although it is below the limit)
    dcb = prog.body("codec::Codec::decompress")
    fam15 = prog.with_closures(dcb)
    SINKS = ("decompress_to_vec_with_limit", "decompress_to_vec_zlib_with_limit", "take", "with_capacity", "decompress_len")
    PASS = ("std::convert::Into::into", "std::convert::From::from", "std::convert::TryInto::try_into", "std::convert::TryFrom::try_from", "std::result::Result::<T, E>::unwrap_or",
            "std::result::Result::<T, E>::unwrap_or_default", "std::result::Result::<T, E>::map_err", "std::ops::Try::branch", "std::clone::Clone::clone")
    n3b = 0
    for bb in fam15:
        for bi, t in bb.calls():
            nm_ = callee_names(t["func"])[0]
            if nm_.split("::")[-1] not in ("decompress_to_vec_with_limit", "take") or len(t["args"]) < 2:
                continue
            cur = t["args"][-1]
            direct = False
            via = []
            for _ in range(8):
                if cur.get("k") not in ("copy", "move"):
                    break
                # look through plain copies and integer casts
                for _c in range(6):
                    sdc = bb.single_def(cur["pl"]["l"]) if not cur["pl"]["p"] else None
                    if sdc and sdc[2] == "assign" and sdc[3]["r"] in ("cast", "use") and sdc[3]["o"].get("k") in ("copy", "move"):
                        cur = sdc[3]["o"]
                    else:
                        break
                cr = bb.call_result_of(cur)
                if cr is None:
                    r_ = bb.resolve_operand(cur)
                    # a captured / moved local that holds the getter's result
                    sd_ = bb.single_def(r_[0]) if r_ else None
                    if sd_ and sd_[2] == "call":
                        cr = (sd_[0], sd_[3])
                    else:
                        break
                cn = callee_names(cr[1]["func"])[0]
                if cn.endswith("util::max_allocation_bytes") or cn == "util::max_allocation_bytes":
                    direct = True
                    break
                grows = cn.split("::")[-1] in ("saturating_add", "checked_add", "wrapping_add") and len(cr[1]["args"]) == 2 and cr[1]["args"][1].get("k") == "const"
                if cn in PASS or grows or cn.endswith(("::try_into", "::into", "::try_from", "::from")):
                    via.append(cn.split("::")[-1])
                    cur = cr[1]["args"][0]
                    continue
                via.append(cn)
                break
            if bb.kind == "Closure" and not direct:
                # closures see the limit as a captured variable of the parent: described as `max_bytes`
                direct = "max_bytes" in bb.opdesc(t["args"][-1]) and not via
            n3b += 1
            inst = "%s: the output bound of %s is the configured limit itself" % ("codec::Codec::decompress", nm_.split("::")[-1])
            kx = sum(1 for o in rep.obligations if o["rule"] == "C15.R3" and o["instance"].startswith(inst))
            rep.ob("C15.R3", inst + ("" if not kx else " #%d" % (kx + 1)), direct,
                   "the bound is computed (%s) instead of being the value of max_allocation_bytes(): a derived, smaller bound rejects payloads that decompress to less than the limit" % (via or bb.opdesc(t["args"][-1])), bb.loc(bi))
    rep.floor("C15.R3", "decompression sinks with a bound operand", n3b, 1)

    # ---------------------------------------------------------------- R4
    hd = prog.bodies.get("writer::Writer::<'a, W>::header")
    if hd is None:
        rep.anchor_error("C15.R4", "Writer::header")
    else:
        vp = None
        ins = [(bi, t) for bi, t in calls_named(hd, "std::collections::HashMap::<K, V, S, A>::insert") if hd.op_str(t["args"][1]) == "avro.codec.compression_level"]
        lv = set()
        for bi, t in ins:
            # Value::Bytes(vec![settings.compression_level]): the element written derives from ((self.codec as X).0).compression_level
            txt = " ".join(hd.pldesc(st["rv"]["o"]["pl"]) for x in sorted(hd.dom[bi]) for st in hd.blocks[x]["stmts"]
                           if st["s"] == "assign" and st["rv"]["r"] == "use" and st["rv"]["o"].get("k") in ("copy", "move") and "compression_level" in hd.pldesc(st["rv"]["o"]["pl"]))
            for v in ("Bzip2", "Xz", "Zstandard"):
                if ("as %s" % v) in txt:
                    lv.add(v)
        rep.ob("C15.R4", "Writer::header writes the settings' compression_level for bzip2, xz and zstandard", lv == {"Bzip2", "Xz", "Zstandard"} and len(ins) == 3, "level written for %s" % sorted(lv), hd.loc())
    for v, how in (("Zstandard", "compression_level"), ("Xz", "compression_level"), ("Bzip2", "compression")):
        if ("compress", v) not in regs:
            continue
        b, reg = regs[("compress", v)]
        uses = False
        for bi in reg:
            for st in b.blocks[bi]["stmts"]:
                if st["s"] == "assign" and st["rv"]["r"] == "use" and st["rv"]["o"].get("k") in ("copy", "move") and "compression_level" in b.pldesc(st["rv"]["o"]["pl"]):
                    uses = True
            t = b.blocks[bi]["term"]
            if t["t"] == "call" and any(n.endswith("Bzip2Settings::compression") for n in callee_names(t["func"])):
                uses = True
        rep.ob("C15.R4", "compress %s hands the settings' level to the encoder" % v, uses, "", b.loc())
    rc = prog.bodies.get("reader::block::read_codec")
    if rc is not None:
        news = set()
        for body in prog.with_closures(rc):
            for bi, t in body.calls():
                for n in callee_names(t["func"]):
                    if n.endswith("Settings::new"):
                        news.add(n.split("::")[-2])
        rep.ob("C15.R4", "read_codec rebuilds bzip2, xz and zstandard settings from the header's level", news >= {"Bzip2Settings", "XzSettings", "ZstandardSettings"}, "found %s" % sorted(news), rc.loc())

    # ---------------------------------------------------------------- R5
    for fn in ("compress", "decompress"):
        b = prog.body("codec::Codec::" + fn)
        writes = [bi for bi, si, st in b.stmts() if st["s"] == "assign" and st["pl"]["l"] == 2 and st["pl"]["p"] == ["*"]]
        # drop-and-assign lowers to an assignment to (*_2) after dropping it
        for v in variants:
            if v == "Null" or (fn, v) not in regs:
                continue
            _, reg = regs[(fn, v)]
            okv = any(x in reg for x in writes)
            # ... on every success path: no Ok is built on a path of this arm that avoids the assignment
            if okv:
                import readset
                avoid = set(x for x in writes if x in reg)
                seen = set()
                st_ = [0]
                while st_:
                    x = st_.pop()
                    if x in seen or x in avoid or x not in reg:
                        continue
                    seen.add(x)
                    st_.extend(b.succ[x])
                okv = not readset.ok_constructions(b, seen)
            rep.ob("C15.R5", "%s %s stores its result in the caller's buffer on every success path" % (fn, v), okv,
                   "a success path of this arm returns without replacing *stream: the payload is left as it was (e.g. an early return for a special input), so the block is not a stream of this codec", b.loc())

    rep.floor("C15", "obligations", len(rep.obligations), 55)
    rep.not_decided = ["that the codec crates round-trip every payload at every level", "acceptance by reference tools (deflate/bzip2/xz/snappy reference implementations)"]
    return common.finish(rep, level="other",
                         explanation="variant-partitioned call inventory of Codec::compress / decompress against a pairing table of library entry points, def-use checks on the snappy CRC trailer, imported output-limit obligations, level plumbing between Writer::header, Codec::compress and read_codec",
                         assumptions=["miniz_oxide, snap, zstd, bzip2, liblzma and crc32fast implement their formats correctly"], evidence_dir=evidence_dir)
