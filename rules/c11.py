"""C11 — the schema parser is total and accepts exactly well-formed schemas.

Structural clauses decided (every acceptance path passes its well-formedness check; who may construct):
 R1 gates   Name: every construction of a `Name` in new_with_enclosing_namespace is reachable only through the Ok edge
            of validate_schema_name (and the one that joins the enclosing namespace also through validate_namespace);
            no other function builds a Name from text. RecordField::parse: the RecordField is built only after
            validate_record_field_name and resolve_default_value succeeded. parse_enum: every symbol passes
            validate_enum_symbol_name inside the symbol loop, a repeated symbol is an Err, a default that is not a
            symbol is an Err, and Schema::Enum is built after the loop. parse_record: a repeated field name is an
            Err (previous value of the lookup insert), Schema::Record is built after the loop. parse_union builds
            Schema::Union only from UnionSchema::new's Ok; UnionSchema is only built by UnionSchemaBuilder::build;
            UnionSchemaBuilder::variant rejects a nested union, a second unnamed branch of the same kind and a
            second branch with the same name. parse_fixed: size must be a u64. fetch_schema_ref: a reference to an
            unknown name is an Err (the None edge of the input-table lookup), so every accepted reference resolves.
 R2 unique full names: see C20.R3 (same four known findings; imported here because C11 states the clause).
 R3 panic inventory: closed, per-kind inventory of explicit panic sites (unwrap/expect/index/panic!/assert) in the
            call-graph slice of the parse entry points and of the post-parse operations the property names
            (canonical_form, fingerprint, Serialize, ResolvedSchema, Debug, denormalize), tables/c11_panic_sites.toml.
Not decided: that exactly the well-formed schemas are accepted (regex content, JSON number ranges), termination on
adversarial nesting (serde_json's recursion limit is trusted).
"""
import os
import tomllib
from collections import Counter, defaultdict
import facts as factsmod
from mir import Program, callee_names, op_local, calls_named, edge_only_region, result_edges
import common
import shape
import c05_more

P = "schema::parser::Parser::"
PARSE_ROOTS = ["schema::Schema::parse_str", "schema::Schema::parse_list", "schema::Schema::parse_str_with_list", "schema::Schema::parse", "schema::Schema::parse_reader"]
POST_ROOTS = ["schema::Schema::canonical_form", "schema::Schema::independent_canonical_form", "schema::Schema::fingerprint", "schema::Schema::denormalize",
              "<schema::Schema as serde::Serialize>::serialize", "<schema::Schema as std::fmt::Debug>::fmt", "schema::resolve::ResolvedSchema::<'s>::new",
              "schema::resolve::ResolvedSchema::<'s>::new_with_schemata", "schema::resolve::ResolvedOwnedSchema::new", "<schema::name::Name as std::fmt::Display>::fmt",
              "<schema::name::Name as std::fmt::Debug>::fmt", "<schema::record::field::RecordField as std::fmt::Debug>::fmt"]


SCHEMA_FILES = ("avro/src/schema/", "avro/src/validator.rs", "avro/src/types.rs", "avro/src/schema_equality.rs", "avro/src/decimal.rs", "avro/src/bigdecimal.rs",
                "avro/src/duration.rs", "avro/src/error.rs", "avro/src/util.rs")


def slice_bodies(prog):
    roots = [r for r in PARSE_ROOTS + POST_ROOTS if r in prog.bodies]
    reach = prog.reach(roots)
    return [prog.bodies[k] for k in sorted(reach) if k in prog.bodies and prog.bodies[k].crate == "apache_avro" and prog.bodies[k].file.startswith(SCHEMA_FILES)]


def get(prog, rep, rule, path):
    try:
        return prog.body(path)
    except KeyError as e:
        rep.anchor_error(rule, str(e))
        return None


def one_call(b, *names):
    c = calls_named(b, *names)
    return c[0] if len(c) == 1 else None


def run(rep, tier="quick", replay=None, evidence_dir=None, collect_only=False):
    prog = Program(factsmod.extract())
    rep.rule("C11.R1", "every acceptance path passes its well-formedness check (gates by dominance; who-may-construct)")
    rep.rule("C11.R2", "full names are unique: no unchecked insert into the definition table (C20.R3 instances)")
    rep.rule("C11.R3", "closed inventory of explicit panic sites in the parser and in the post-parse operations")

    # ------------------------------------------------------------------ Name
    nn = get(prog, rep, "C11.R1", "schema::name::Name::new_with_enclosing_namespace")
    if nn is not None:
        v = one_call(nn, "validator::validate_schema_name")
        vn = one_call(nn, "validator::validate_namespace")
        aggs = shape.aggregates(nn, "schema::name::Name")
        rep.floor("C11.R1", "Name constructions in new_with_enclosing_namespace", len(aggs), 3)
        if rep.ob("C11.R1", "Name::new_with_enclosing_namespace calls validate_schema_name and validate_namespace", v is not None and vn is not None, "", nn.loc()):
            for bi, st in aggs:
                rep.ob("C11.R1", "Name built only after validate_schema_name succeeded", shape.gated_by_ok(nn, v[0], bi), "a name that does not match the grammar would be accepted", nn.loc(bi, st.get("ln")))
            rep.ob("C11.R1", "validate_schema_name failure is an error", shape.err_edge_only_err(nn, v[0]), "", nn.loc(v[0]))
            # the construction that joins the enclosing namespace: its string comes from format!(..)
            joined = []
            for bi, st in aggs:
                cr = nn.call_result_of(st["rv"]["ops"][0])
                if cr and callee_names(cr[1]["func"])[0] in ("std::hint::must_use", "std::fmt::format", "alloc::fmt::format"):
                    joined.append((bi, st))
            rep.ob("C11.R1", "the Name that takes the enclosing namespace is built only after validate_namespace succeeded",
                   len(joined) == 1 and shape.gated_by_ok(nn, vn[0], joined[0][0]) and shape.err_edge_only_err(nn, vn[0]),
                   "an invalid enclosing namespace would be joined into a full name", nn.loc(vn[0]))
    allowed_builders = {"schema::name::Name::new_with_enclosing_namespace", "schema::name::Name::fully_qualified_name", "schema::name::Name::invalid_empty_name",
                        "<schema::name::Name as std::clone::Clone>::clone"}
    builders = set()
    for k, b in prog.bodies.items():
        if b.crate == "apache_avro" and shape.aggregates(b, "schema::name::Name"):
            builders.add(b.path if b.kind != "Closure" else b.parent)
    rep.ob("C11.R1", "Name values are built only by the validating constructor (and clone / re-qualification of an existing Name)", builders <= allowed_builders,
           "unexpected constructors: %s" % sorted(builders - allowed_builders))
    np_ = get(prog, rep, "C11.R1", "schema::name::Name::parse")
    if np_ is not None:
        c = one_call(np_, "schema::name::Name::new_with_enclosing_namespace")
        rep.ob("C11.R1", "Name::parse returns the validating constructor's result", c is not None and c[1]["dest"]["l"] == 0, "", np_.loc())

    # ------------------------------------------------------------------ RecordField
    rf = get(prog, rep, "C11.R1", "schema::record::field::RecordField::parse")
    if rf is not None:
        v = one_call(rf, "validator::validate_record_field_name")
        d = one_call(rf, "schema::record::field::RecordField::resolve_default_value")
        aggs = shape.aggregates(rf, "schema::record::field::RecordField")
        if rep.ob("C11.R1", "RecordField::parse: one field-name check, one default check, one construction", v is not None and d is not None and len(aggs) == 1, "", rf.loc()):
            rep.ob("C11.R1", "RecordField built only after validate_record_field_name succeeded", shape.gated_by_ok(rf, v[0], aggs[0][0]) and shape.err_edge_only_err(rf, v[0]), "", rf.loc(v[0]))
            rep.ob("C11.R1", "RecordField built only after its default was checked against its schema", shape.gated_by_ok(rf, d[0], aggs[0][0]) and shape.err_edge_only_err(rf, d[0]),
                   "a default that does not conform to the field's schema would be accepted", rf.loc(d[0]))
            # the default checked is the default stored; the schema checked is the schema stored
            a = d[1]["args"]
            r_s = rf.resolve_operand(a[0])
            fld = dict(zip(aggs[0][1]["rv"].get("fields", []), aggs[0][1]["rv"]["ops"]))
            r_s2 = rf.resolve_operand(fld.get("schema", {})) if fld.get("schema", {}).get("k") in ("copy", "move") else None
            r_d = rf.resolve_operand(a[4])
            r_d2 = rf.resolve_operand(fld.get("default", {})) if fld.get("default", {}).get("k") in ("copy", "move") else None
            rep.ob("C11.R1", "the schema and default that were checked are the ones stored in the field", bool(r_s and r_s2 and r_s[0] == r_s2[0] and r_d and r_d2 and r_d[0] == r_d2[0]), "", rf.loc())
    rdv = get(prog, rep, "C11.R1", "schema::record::field::RecordField::resolve_default_value")
    if rdv is not None:
        res = calls_named(rdv, "types::Value::resolve_internal")
        n_ok = 0
        for body in prog.with_closures(rdv):
            for bi, t in calls_named(body, "types::Value::resolve_internal"):
                n_ok += 1
        rep.ob("C11.R1", "resolve_default_value resolves the default against the field schema (both the union and the plain case)", n_ok == 2, "found %d resolve_internal calls" % n_ok, rdv.loc())
        # plain case: !resolved -> Err only
        okp = False
        for bi, t in res:
            io = [c for c in calls_named(rdv, "std::result::Result::<T, E>::is_ok") if op_local(c[1]["args"][0]) is not None and rdv.resolve_operand(c[1]["args"][0])[0] == t["dest"]["l"]]
            if len(io) == 1:
                sw = shape.call_bool_switch(rdv, io[0][0])
                if sw:
                    okp = shape.edge_must_err(rdv, sw[0], sw[1])
        rep.ob("C11.R1", "resolve_default_value: a default that does not resolve is an error", okp, "", rdv.loc())
        anyc = one_call(rdv, "std::iter::Iterator::any")
        oku = False
        if anyc is not None:
            sw = shape.call_bool_switch(rdv, anyc[0])
            if sw:
                oku = shape.edge_must_err(rdv, sw[0], sw[1])
        rep.ob("C11.R1", "resolve_default_value: a union default that resolves against no branch is an error", oku, "", rdv.loc())

    # ------------------------------------------------------------------ parse_enum
    pe = get(prog, rep, "C11.R1", P + "parse_enum")
    if pe is not None:
        v = one_call(pe, "validator::validate_enum_symbol_name")
        agg = shape.aggregates(pe, "schema::Schema", "Enum")
        ok = v is not None and len(agg) == 1
        if rep.ob("C11.R1", "parse_enum: one symbol-name check and one Schema::Enum construction", ok, "", pe.loc()):
            lp = shape.loop_of(pe, v[0])
            rep.ob("C11.R1", "parse_enum: every symbol is validated inside the symbol loop and a failure is an error",
                   lp is not None and shape.err_edge_only_err(pe, v[0]) and agg[0][0] not in lp[1] and pe.dominates(lp[0], agg[0][0]), "", pe.loc(v[0]))
            # duplicate symbol: HashSet::contains true edge -> Err only, inside the same loop; or insert() == false
            dup = False
            for bi, t in calls_named(pe, "std::collections::HashSet::<T, S, A>::contains"):
                sw = shape.call_bool_switch(pe, bi)
                if sw and lp and bi in lp[1] and shape.only_err(pe, edge_only_region(pe, sw[0], sw[2])):
                    dup = True
            for bi, t in calls_named(pe, "std::collections::HashSet::<T, S, A>::insert"):
                sw = shape.call_bool_switch(pe, bi)
                if sw and lp and bi in lp[1] and shape.only_err(pe, edge_only_region(pe, sw[0], sw[1])):
                    dup = True
            rep.ob("C11.R1", "parse_enum: a repeated symbol is an error", dup, "", pe.loc())
            # the set tested is filled with every symbol
            ins = calls_named(pe, "std::collections::HashSet::<T, S, A>::insert")
            rep.ob("C11.R1", "parse_enum: every symbol is recorded in the set that is tested", len(ins) == 1 and lp is not None and ins[0][0] in lp[1], "", pe.loc())
            # default is a symbol
            re_ = one_call(pe, "types::Value::resolve_enum")
            okd = False
            if re_ is not None:
                io = [c for c in calls_named(pe, "std::result::Result::<T, E>::is_ok")]
                for c in io:
                    sw = shape.call_bool_switch(pe, c[0])
                    if sw and shape.only_err(pe, edge_only_region(pe, sw[0], sw[1])) and pe.dominates(re_[0], c[0]):
                        okd = True
                sym_root = pe.resolve_operand(re_[1]["args"][1])
            rep.ob("C11.R1", "parse_enum: a default that is not one of the symbols is an error", okd, "", pe.loc())
            # symbols validated are symbols stored
            fld = dict(zip(agg[0][1]["rv"].get("fields", []), agg[0][1]["rv"]["ops"]))
            inner = None
            cr = pe.single_def(op_local(fld["0"])) if "0" in fld else None
            es = shape.aggregates(pe, "schema::EnumSchema")
            oks = False
            if len(es) == 1 and re_ is not None:
                f2 = dict(zip(es[0][1]["rv"].get("fields", []), es[0][1]["rv"]["ops"]))
                stored = pe.resolve_operand(f2["symbols"]) if "symbols" in f2 and f2["symbols"].get("k") in ("copy", "move") else None
                # the loop that validates iterates the same vector
                it = [c for c in calls_named(pe, "core::slice::<impl [T]>::iter", "std::iter::IntoIterator::into_iter") if lp and pe.dominates(c[0], lp[0])]
                looped = [pe.resolve_operand(c[1]["args"][0]) for c in it]
                oks = bool(stored and sym_root and stored[0] == sym_root[0] and any(r and r[0] == stored[0] for r in looped))
                okd = okd and bool(stored and sym_root and stored[0] == sym_root[0])
            rep.ob("C11.R1", "parse_enum: the symbols stored are the symbols that were validated", oks, "", pe.loc())

    # ------------------------------------------------------------------ parse_record
    pr = get(prog, rep, "C11.R1", P + "parse_record")
    if pr is not None:
        agg = shape.aggregates(pr, "schema::Schema", "Record")
        ins = [(bi, t) for bi, t in calls_named(pr, "std::collections::BTreeMap::<K, V, A>::insert") if pr.opdesc(t["args"][0]) == "lookup"]
        okd = False
        for bi, t in ins:
            sw = shape.option_switch(pr, t["dest"]["l"])
            if sw and pr.in_loop(bi) and shape.only_err(pr, edge_only_region(pr, sw[0], sw[2])):
                # key is the field's name
                cr = pr.call_result_of(t["args"][1])
                if cr and "name" in pr.opdesc(cr[1]["args"][0]):
                    okd = True
        rep.ob("C11.R1", "parse_record: a repeated field name is an error", okd and len(agg) == 1, "", pr.loc())
        if agg and ins:
            lp = shape.loop_of(pr, ins[0][0])
            rep.ob("C11.R1", "parse_record: Schema::Record is built after the duplicate-field loop", lp is not None and agg[0][0] not in lp[1] and pr.dominates(lp[0], agg[0][0]), "", pr.loc())
        # fields parsed by RecordField::parse
        nfp = sum(len(calls_named(b, "schema::record::field::RecordField::parse")) for b in prog.with_closures(pr))
        rep.ob("C11.R1", "parse_record: every field goes through RecordField::parse", nfp == 1, "", pr.loc())
        npn = one_call(pr, "schema::name::Name::parse")
        rep.ob("C11.R1", "parse_record: the record name goes through Name::parse", npn is not None and agg and shape.gated_by_ok(pr, npn[0], agg[0][0]), "", pr.loc())
    for fn, var in ((P + "parse_enum", "Enum"), (P + "parse_fixed", "Fixed")):
        b = prog.bodies.get(fn)
        if b is not None:
            npn = one_call(b, "schema::name::Name::parse")
            agg = shape.aggregates(b, "schema::Schema", var)
            rep.ob("C11.R1", "%s: the name goes through Name::parse" % fn.split("::")[-1], npn is not None and len(agg) == 1 and shape.gated_by_ok(b, npn[0], agg[0][0]), "", b.loc())

    # ------------------------------------------------------------------ unions
    pu = get(prog, rep, "C11.R1", P + "parse_union")
    if pu is not None:
        found = False
        for body in prog.with_closures(pu):
            agg = shape.aggregates(body, "schema::Schema", "Union")
            un = one_call(body, "schema::union::UnionSchema::new")
            if agg and un is not None:
                found = shape.gated_by_ok(body, un[0], agg[0][0]) and shape.err_edge_only_err(body, un[0])
        rep.ob("C11.R1", "parse_union builds Schema::Union only from UnionSchema::new's Ok", found, "", pu.loc())
    ub = set()
    for k, b in prog.bodies.items():
        if b.crate == "apache_avro" and shape.aggregates(b, "schema::union::UnionSchema"):
            ub.add(b.path)
    rep.ob("C11.R1", "UnionSchema values are built only by UnionSchemaBuilder::build (and clone)", ub <= {"schema::union::UnionSchemaBuilder::build", "<schema::union::UnionSchema as std::clone::Clone>::clone"},
           "constructors: %s" % sorted(ub))
    un = get(prog, rep, "C11.R1", "schema::union::UnionSchema::new")
    if un is not None:
        v = one_call(un, "schema::union::UnionSchemaBuilder::variant")
        bd = one_call(un, "schema::union::UnionSchemaBuilder::build")
        rep.ob("C11.R1", "UnionSchema::new adds every branch with the checking `variant` (in the loop) and a failure is an error",
               v is not None and bd is not None and un.in_loop(v[0]) and not un.in_loop(bd[0]) and shape.err_edge_only_err(un, v[0]), "", un.loc())
    uv = get(prog, rep, "C11.R1", "schema::union::UnionSchemaBuilder::variant")
    if uv is not None:
        ck = calls_named(uv, "std::collections::HashMap::<K, V, S, A>::contains_key", "std::collections::BTreeMap::<K, V, A>::contains_key")
        rej = {}
        for bi, t in ck:
            sw = shape.call_bool_switch(uv, bi)
            tab = uv.opdesc(t["args"][0])
            if sw and shape.only_err(uv, edge_only_region(uv, sw[0], sw[2])):
                rej[tab] = True
        rep.ob("C11.R1", "UnionSchemaBuilder::variant rejects a second branch with the same name", rej.get("self.names", False), "checked tables: %s" % sorted(rej), uv.loc())
        rep.ob("C11.R1", "UnionSchemaBuilder::variant rejects a second unnamed branch of the same kind", rej.get("self.variant_index", False), "checked tables: %s" % sorted(rej), uv.loc())
        # nested union: comparison of the discriminant with SchemaKind::Union -> Err
        nest = False
        for bi, t in uv.calls():
            nm = callee_names(t["func"])
            if nm and nm[0] in ("std::cmp::PartialEq::eq", "std::cmp::PartialEq::ne"):
                cs = [uv.op_const(a).get("variant") for a in t["args"]]
                if ("schema::SchemaKind", "Union") in cs:
                    sw = shape.call_bool_switch(uv, bi)
                    if sw:
                        tgt = sw[2] if nm[0].endswith("::eq") else sw[1]
                        nest = shape.only_err(uv, edge_only_region(uv, sw[0], tgt))
        rep.ob("C11.R1", "UnionSchemaBuilder::variant rejects a union nested directly in a union", nest, "", uv.loc())
        # both tables record the branch they test
        ins = calls_named(uv, "std::collections::HashMap::<K, V, S, A>::insert", "std::collections::BTreeMap::<K, V, A>::insert")
        rep.ob("C11.R1", "UnionSchemaBuilder::variant records every accepted branch in the table it tests", sorted(uv.opdesc(t["args"][0]) for _, t in ins) == ["self.names", "self.variant_index"], "", uv.loc())

    # ------------------------------------------------------------------ fixed size / references
    pf = get(prog, rep, "C11.R1", P + "parse_fixed")
    if pf is not None:
        au = one_call(pf, "serde_json::Value::as_u64")
        agg = shape.aggregates(pf, "schema::Schema", "Fixed")
        ok = False
        if au is not None and agg:
            oo = [c for c in calls_named(pf, "std::option::Option::<T>::ok_or_else", "std::option::Option::<T>::ok_or") if op_local(c[1]["args"][0]) == au[1]["dest"]["l"]]
            if len(oo) == 1:
                # the `?` on the (merged) size result gates the construction
                tb = [c for c in calls_named(pf, "std::ops::Try::branch")]
                for c in tb:
                    if op_local(c[1]["args"][0]) == oo[0][1]["dest"]["l"] and pf.dominates(c[0], agg[0][0]):
                        e = result_edges(pf, c[1]["args"][0]["pl"]["l"])
                        if len(e) == 1 and pf.dominates(e[0][1], agg[0][0]) and shape.only_err(pf, edge_only_region(pf, e[0][0], e[0][2])):
                            ok = True
        rep.ob("C11.R1", "parse_fixed: the size must be a non-negative integer (as_u64) or parsing fails", ok, "", pf.loc())
    fr = get(prog, rep, "C11.R1", P + "fetch_schema_ref")
    if fr is not None:
        rm = [(bi, t) for bi, t in calls_named(fr, "std::collections::HashMap::<K, V, S, A>::remove") if fr.opdesc(t["args"][0]) == "self.input_schemas"]
        ok = False
        if len(rm) == 1:
            oo = [c for c in calls_named(fr, "std::option::Option::<T>::ok_or_else", "std::option::Option::<T>::ok_or") if op_local(c[1]["args"][0]) == rm[0][1]["dest"]["l"]]
            if len(oo) == 1:
                ok = shape.err_edge_only_err(fr, oo[0][0])
                pc = one_call(fr, P + "parse")
                ok = ok and pc is not None and shape.gated_by_ok(fr, oo[0][0], pc[0])
        rep.ob("C11.R1", "fetch_schema_ref: a name that is neither parsed, being parsed, nor among the inputs is an error", ok, "an unresolvable reference would be accepted", fr.loc())
        # Ref returned early only under contains_key == true
        refs = shape.aggregates(fr, "schema::Schema", "Ref")
        ck = [(bi, t) for bi, t in calls_named(fr, "std::collections::HashMap::<K, V, S, A>::contains_key") if fr.opdesc(t["args"][0]) == "self.parsed_schemas"]
        okr = False
        if len(refs) == 1 and len(ck) == 1:
            sw = shape.call_bool_switch(fr, ck[0][0])
            okr = bool(sw) and fr.dominates(sw[2], refs[0][0]) and edge_only_region(fr, sw[0], sw[2]) is not None
        rep.ob("C11.R1", "fetch_schema_ref: a bare reference is returned only for a name that is already defined", okr, "", fr.loc())
    rep.floor("C11.R1", "gate obligations", len([o for o in rep.obligations if o["rule"] == "C11.R1"]), 30)

    # ------------------------------------------------------------------ R4 namespace threading
    rep.rule("C11.R4", "inside the parser every nested parse receives a namespace derived from the caller's enclosing namespace (or from a parsed name), never a fresh None, except where an input schema starts a new top-level parse")
    NS_ALLOW_NONE = {"schema::parser::Parser::fetch_schema_ref": "an input schema parsed on demand is a top-level schema: it does not inherit the referrer's namespace (C20.R5)",
                     "schema::parser::Parser::parse_input_schemas": "top-level input", "schema::parser::Parser::parse_str": "top-level schema",
                     "schema::Schema::parse": "top-level schema", "schema::Schema::parse_with_names": "top-level schema", "schema::Schema::parse_str_with_list": "top-level schema"}

    def ns_param(body):
        for i in range(1, body.argc + 1):
            if body.local_name(i) == "enclosing_namespace":
                return i
        return None
    n4 = 0
    for k, b in sorted(prog.bodies.items()):
        if b.crate != "apache_avro" or not (k.startswith("schema::parser::") or k.startswith("schema::record::field::RecordField::parse") or k.startswith("schema::name::Name::parse")):
            continue
        owner = b if b.kind != "Closure" else prog.bodies.get(b.parent, b)
        for bi, t in b.calls():
            cal = None
            for nme in reversed(callee_names(t["func"])):
                if nme in prog.bodies and prog.bodies[nme].kind != "Closure":
                    cal = prog.bodies[nme]
                    break
            if cal is None:
                continue
            pi = ns_param(cal)
            if pi is None or pi - 1 >= len(t["args"]):
                continue
            if not (cal.path.startswith("schema::parser::") or cal.path.endswith(("::parse", "::new_with_enclosing_namespace"))):
                continue   # formatting helpers (fullname, fully_qualified_name) take a namespace but define nothing
            n4 += 1
            a = t["args"][pi - 1]
            desc = b.opdesc(a)
            is_none = False
            if a.get("k") in ("copy", "move"):
                sd = b.single_def(op_local(a))
                is_none = bool(sd and sd[2] == "assign" and sd[3]["r"] == "agg" and sd[3].get("adt") == "std::option::Option" and sd[3].get("variant") == "None")
            who = owner.path
            if is_none:
                rep.ob("C11.R4", "%s -> %s passes a derived namespace" % (who, cal.path.split("::")[-1]), who in NS_ALLOW_NONE,
                       "a nested definition parsed with no enclosing namespace loses the namespace it should inherit: its full name (and everything derived from it: references, canonical form, fingerprints) changes", b.loc(bi))
            else:
                rep.ob("C11.R4", "%s -> %s passes a derived namespace" % (who, cal.path.split("::")[-1]), who not in ("schema::parser::Parser::fetch_schema_ref", "schema::parser::Parser::parse_input_schemas") or cal.path.endswith("new_with_enclosing_namespace"),
                       "an input schema is a top-level schema and must be parsed without the referrer's namespace (passes %s)" % desc, b.loc(bi))
                # where the namespace comes from: the caller's own namespace parameter, the namespace of a parsed name, or
                # `<own attribute>.or(<the caller's namespace>)`; the JSON attribute alone forgets the inherited namespace

                def from_param(op):
                    if op.get("k") not in ("copy", "move"):
                        return False
                    r_ = b.resolve_operand(op)
                    return bool(r_ and 1 <= r_[0] <= b.argc)

                def derived(op, depth=0):
                    if from_param(op):
                        return True
                    cr_ = b.call_result_of(op)
                    if not cr_ or depth > 3:
                        return False
                    cn = callee_names(cr_[1]["func"])[0]
                    if cn.endswith("Name::namespace"):
                        return True
                    if cn in ("std::option::Option::<T>::or", "std::option::Option::<T>::or_else", "std::option::Option::<T>::as_deref", "std::option::Option::<T>::as_ref",
                              "std::ops::Deref::deref", "std::clone::Clone::clone", "std::convert::Into::into", "std::option::Option::<T>::map", "std::option::Option::<T>::cloned"):
                        return any(derived(x, depth + 1) for x in cr_[1]["args"])
                    return False
                rep.ob("C11.R4", "%s -> %s: the namespace handed down derives from the caller's namespace or from a parsed name" % (who, cal.path.split("::")[-1]), derived(a),
                       "the nested definition is parsed under %s, which ignores the namespace it should inherit from the enclosing definition: its full name changes (references, canonical form and fingerprints with it)" % desc, b.loc(bi))
    # aliases are qualified with the namespace of the type's own full name (not with the JSON `namespace` attribute or the
    # enclosing namespace: a dotted name carries its namespace in the name)
    fa = prog.bodies.get(P + "fix_aliases_namespace")
    n_al = 0
    for k, b in sorted(prog.bodies.items()):
        if b.crate != "apache_avro" or not k.startswith("schema::parser::"):
            continue
        for bi, t in calls_named(b, P + "fix_aliases_namespace"):
            n_al += 1
            ok = False
            for a in t["args"]:
                cr = b.call_result_of(a)
                if cr and callee_names(cr[1]["func"])[0].endswith("Name::namespace"):
                    rr = b.resolve_operand(cr[1]["args"][0])
                    # ... of the name parsed for this very type
                    np_ = calls_named(b, "schema::name::Name::parse")
                    ok = bool(np_)
            rep.ob("C11.R4", "%s qualifies the aliases with the namespace of the parsed full name" % b.path, ok,
                   "aliases of a type whose namespace comes from a dotted name (or differs from the JSON `namespace` / enclosing namespace) get another namespace: they no longer round-trip and no longer match the writer's name", b.loc(bi))
    rep.floor("C11.R4", "alias-namespace call sites", n_al, 3)
    if fa is not None:
        an = [(cb, bi, t) for cb in prog.with_closures(fa) for bi, t in calls_named(cb, "schema::name::Alias::new_with_enclosing_namespace")]
        okp = False
        for cb, bi, t in an:
            d = cb.opdesc(t["args"][1])
            okp = okp or d.endswith("namespace")
        lookups = [1 for cb in prog.with_closures(fa) for bi, t in cb.calls() if any("MapHelper" in n or "::string" in n for n in callee_names(t["func"]))]
        rep.ob("C11.R4", "fix_aliases_namespace applies the namespace it is given (and derives none itself)", len(an) == 1 and okp and not lookups,
               "the helper looks a namespace up on its own", fa.loc())
    # names taken from the schema text are always qualified with the namespace in force: the namespace-less constructor is
    # used only where the text is an input's own top-level name
    UNQUALIFIED_OK = {"schema::parser::Parser::get_schema_type_name": "the `name` of an input given as {\"name\": .., \"type\": {..}}: a top-level name"}
    for k_, b_ in sorted(prog.bodies.items()):
        if b_.crate != "apache_avro" or not k_.startswith("schema::parser::"):
            continue
        owner_ = b_.path if b_.kind != "Closure" else (b_.parent or b_.path)
        for bi, t in b_.calls():
            n_ = callee_names(t["func"])[0]
            if n_.endswith("schema::name::Name::new") or n_ in ("schema::name::Name::new",) or (n_.endswith("::from_str") and "Name" in n_) or (n_.endswith("TryFrom::try_from") and "schema::name::Name" in str(t["func"].get("ga"))):
                n4 += 1
                rep.ob("C11.R4", "%s builds a name without an enclosing namespace only for a top-level name" % owner_, owner_ in UNQUALIFIED_OK,
                       "a name taken from inside a schema is looked up / defined without the namespace in force: a relative reference binds to the null-namespace type of that name (when one happens to be defined already) instead of the type in the enclosing namespace", b_.loc(bi))
    rep.floor("C11.R4", "nested parse calls with a namespace argument", n4, 20)

    # ------------------------------------------------------------------ R2 (import C20.R3)
    import c20
    sub = common.Report("C20", tier, 0)
    c20.run(sub, tier=tier, collect_only=True)
    n2 = 0
    for o in sub.obligations:
        if o["rule"] == "C20.R3":
            n2 += 1
            rep.ob("C11.R2", o["instance"], o["ok"], o["detail"], o["loc"])
    rep.floor("C11.R2", "definition-table insert sites", n2, 4)

    # ------------------------------------------------------------------ R3 panic inventory
    roots = [r for r in PARSE_ROOTS + POST_ROOTS if r in prog.bodies]
    missing = [r for r in PARSE_ROOTS + POST_ROOTS if r not in prog.bodies]
    for m in missing:
        rep.anchor_error("C11.R3", "root function %s" % m)
    reach = prog.reach(roots)
    allb = [prog.bodies[k] for k in sorted(reach) if k in prog.bodies and prog.bodies[k].crate == "apache_avro"]
    rep.analysed["functions reachable from parse + post-parse roots (trait calls over-approximated)"] = len(allb)
    # unresolved trait calls on generic parameters (Serializer, Iterator, Read) make the closure reach the codec,
    # reader and serializer modules, whose sites are inventoried by C05/C13; C11's inventory is the schema side
    bodies = [b for b in allb if b.file.startswith(SCHEMA_FILES)]
    rep.analysed["of these in the schema / validator / value modules"] = len(bodies)
    rep.floor("C11.R3", "functions in the parse/post-parse slice", len(bodies), 150)
    with open(os.path.join(common.VERIF, "rules", "tables", "c11_panic_sites.toml"), "rb") as fh:
        table = tomllib.load(fh)
    budget = dict((e["kind"], e) for e in table.get("kind", []))
    found = defaultdict(list)
    for b in bodies:
        for kind, what, bi in c05_more.panic_sites(b):
            found[kind].append((b.path, b.loc(bi), what))
    total = sum(len(v) for v in found.values())
    rep.analysed["panic sites in the slice after auto-discharge"] = total
    rep.floor("C11.R3", "inventoried panic sites", total, 40)
    for kind in sorted(set(found) | set(budget)):
        sites = found.get(kind, [])
        perfn = Counter(p for p, _, _ in sites)
        e = budget.get(kind)
        known = dict(e.get("functions", {})) if e else {}
        over = []
        for fn, n in sorted(perfn.items()):
            if n > known.get(fn, 0):
                over.append("%s (%d, table %d) at %s" % (fn, n, known.get(fn, 0), ", ".join(l for p, l, _ in sites if p == fn)))
        allowed = e["count"] if e else 0
        ok = len(sites) <= allowed
        rep.ob("C11.R3", "panic-site budget kind=%s" % kind, ok,
               ("%d sites of kind %s, table allows %d; functions above their recorded count: %s" % (len(sites), kind, allowed, "; ".join(over))) if not ok else "%d sites <= %d allowed" % (len(sites), allowed),
               over[0].split(" at ")[-1] if over else "")

    # ------------------------------------------------------------ R5 no silent filtering of structural JSON arrays
    rep.rule("C11.R5", "the parser never drops an ill-typed element of a structural JSON array (record fields, enum symbols): kind tests on array elements end in an error, not in a filter")
    with open(os.path.join(common.VERIF, "rules", "tables", "c11_lenient_filters.toml"), "rb") as fh:
        lenient = tomllib.load(fh).get("lenient", [])
    FILTERS = ("std::iter::Iterator::flat_map", "std::iter::Iterator::filter_map", "std::iter::Iterator::flatten", "std::iter::Iterator::filter")

    def kind_tests(body, depth=0):
        out = [callee_names(t["func"])[0] for _, t in body.calls() if callee_names(t["func"])[0].startswith("serde_json::Value::as_")]
        if depth < 2:
            for _, _, st in body.stmts():
                if st["s"] == "assign" and st["rv"]["r"] == "agg" and st["rv"].get("ak") == "closure" and st["rv"].get("def") in prog.bodies:
                    out += kind_tests(prog.bodies[st["rv"]["def"]], depth + 1)
        return out
    nfil = 0
    for k, b in prog.bodies.items():
        if b.crate != "apache_avro" or not (b.file.startswith("avro/src/schema/") or b.file.endswith("avro/src/util.rs")):
            continue
        owner = b.path if b.kind != "Closure" else (b.parent or b.path)
        for bi, t in b.calls():
            nm = callee_names(t["func"])[0]
            if nm not in FILTERS:
                continue
            tests = []
            for a in t["args"]:
                if a.get("k") == "const" and str(a.get("fn", "")).startswith("serde_json::Value::as_"):
                    tests.append(a["fn"])
                if a.get("k") in ("copy", "move") and not a["pl"]["p"]:
                    sd = b.single_def(a["pl"]["l"])
                    if sd and sd[2] == "assign" and sd[3]["r"] == "agg" and sd[3].get("ak") == "closure" and sd[3].get("def") in prog.bodies:
                        tests += kind_tests(prog.bodies[sd[3]["def"]])
            if nm.endswith("flatten"):
                # flatten of an iterator of Options produced by a kind test one step earlier
                cr = b.call_result_of(t["args"][0]) if t["args"] else None
                if cr:
                    for a in cr[1]["args"]:
                        if a.get("k") == "const" and str(a.get("fn", "")).startswith("serde_json::Value::as_"):
                            tests.append(a["fn"])
                        if a.get("k") in ("copy", "move") and not a["pl"]["p"]:
                            sd = b.single_def(a["pl"]["l"])
                            if sd and sd[2] == "assign" and sd[3]["r"] == "agg" and sd[3].get("ak") == "closure" and sd[3].get("def") in prog.bodies:
                                tests += kind_tests(prog.bodies[sd[3]["def"]])
            if not tests:
                continue
            nfil += 1
            listed = [e for e in lenient if e["function"] == owner]
            rep.ob("C11.R5", "%s: %s over JSON elements tested with %s is a listed lenient attribute" % (owner, nm.split("::")[-1], sorted(set(x.split("::")[-1] for x in tests))), bool(listed),
                   "elements of the wrong JSON kind are silently dropped: a schema text with a malformed entry is accepted as if the entry were absent (for record fields or enum symbols this changes the schema)", b.loc(bi))
    rep.analysed["filtering adapters over JSON kind tests in the parser"] = nfil
    for fn, err in (("schema::parser::Parser::parse_enum", "GetEnumSymbols"), ("schema::parser::Parser::parse_record", "GetRecordFieldsJson")):
        b0 = prog.bodies.get(fn)
        if b0 is None:
            rep.anchor_error("C11.R5", fn)
            continue
        fam = prog.with_closures(b0)
        has = any(st["s"] == "assign" and st["rv"]["r"] == "agg" and st["rv"].get("adt") == "error::Details" and st["rv"].get("variant") == err for bb in fam for _, _, st in bb.stmts())
        viafn = any(a.get("k") == "const" and str(a.get("ctor", a.get("fn", ""))).endswith("Details::" + err) for bb in fam for _, t in bb.calls() for a in t["args"])
        tests = [x for bb in fam for x in kind_tests(bb, 2)]
        rep.ob("C11.R5", "%s: an element of the wrong JSON kind is an error (%s) and the elements are kind-tested" % (fn.split("::")[-1], err), (has or viafn) and bool(tests), "", b0.loc())

    # the builder's index tables and its branch list move together (all variant* methods, also the derive-only one)
    for k_, ub_ in sorted(prog.bodies.items()):
        if not k_.startswith("schema::union::UnionSchemaBuilder::variant") or ub_.kind == "Closure":
            continue
        pushes = [bi for bi, t in calls_named(ub_, "std::vec::Vec::<T, A>::push") if ub_.opdesc(t["args"][0]) == "self.schemas"]
        for bi, t in calls_named(ub_, "std::collections::HashMap::<K, V, S, A>::insert", "std::collections::BTreeMap::<K, V, A>::insert"):
            tab = ub_.opdesc(t["args"][0])
            if tab not in ("self.names", "self.variant_index"):
                continue
            # the position stored is self.schemas.len() taken before the branch is appended (directly or through a local)
            cr = None
            if len(t["args"]) > 2 and t["args"][2].get("k") in ("copy", "move"):
                r_ = ub_.resolve_operand(t["args"][2])
                if r_ and not [p for p in r_[1] if p not in ("*", "&")]:
                    sd_ = ub_.single_def(r_[0])
                    if sd_ and sd_[2] == "call":
                        cr = (sd_[0], sd_[3])
            pos_ok = bool(cr and callee_names(cr[1]["func"])[0].endswith("::len") and "self.schemas" in ub_.opdesc(cr[1]["args"][0]))
            # insert and push always happen together, the length being read before the push
            paired = any((ub_.postdominates(p_, bi) or (ub_.dominates(p_, bi) and ub_.postdominates(bi, p_))) and (not cr or ub_.dominates(cr[0], p_)) for p_ in pushes)
            inst = "%s: an entry of %s is added only together with the branch it points to" % (ub_.path.split("::")[-1], tab)
            kx = sum(1 for o in rep.obligations if o["rule"] == "C11.R1" and o["instance"].startswith(inst))
            rep.ob("C11.R1", inst + ("" if not kx else " #%d" % (kx + 1)), pos_ok and paired,
                   "the index table is updated on a path that does not append the branch (or not with the position of the appended branch): the table points at the wrong branch or past the end, values of that kind are written under the wrong index or the lookup panics", ub_.loc(bi))

    # ------------------------------------------------------------ R6 union uniqueness is decided on the underlying type
    rep.rule("C11.R6", "the kind under which a union branch is checked for uniqueness is the underlying type of its schema (specification table of logical types); every other shape is its own kind")
    with open(os.path.join(common.VERIF, "rules", "tables", "spec_logical_base.toml"), "rb") as fh:
        base_tab = tomllib.load(fh)["base"]
    sb = prog.bodies.get("schema::union::schema_to_base_schemakind")
    if sb is None:
        rep.anchor_error("C11.R6", "schema::union::schema_to_base_schemakind")
    else:
        from wire import Wire
        from vpes import top_shapes
        svp = Wire(prog).vpes(sb)
        n6 = 0
        for s_, reg in top_shapes(svp, 1):
            S_ = svp.shape_name(s_, 1)
            outs = set()
            for x in reg:
                for st in sb.blocks[x]["stmts"]:
                    if st["s"] == "assign" and st["pl"]["l"] == 0 and not st["pl"]["p"]:
                        rv = st["rv"]
                        if rv["r"] == "agg" and rv.get("variant"):
                            outs.add(rv["variant"])
                        else:
                            outs.add("<itself>")
            want = base_tab.get(S_, "<itself>")
            n6 += 1
            rep.ob("C11.R6", "a %s branch counts as %s for the uniqueness rule of unions" % (S_, want if want != "<itself>" else "its own kind"), outs == {want},
                   "schema_to_base_schemakind answers %s for %s: a union with two branches of the same underlying type is accepted (or a legal union rejected)" % (sorted(outs), S_), sb.loc())
        rep.floor("C11.R6", "schema shapes", n6, 31)
    # the users: the builder keys its duplicate test on that kind
    bld = [b for k, b in prog.bodies.items() if k.startswith("schema::union::UnionSchemaBuilder::variant") and b.kind != "Closure"]
    rep.ob("C11.R6", "UnionSchemaBuilder::variant* key their duplicate test on schema_to_base_schemakind", bool(bld) and all(calls_named(b, "schema::union::schema_to_base_schemakind") for b in bld), "", bld[0].loc() if bld else "")

    # ------------------------------------------------------------ R8 every named shape is registered / looked up by the name resolver
    rep.rule("C11.R8", "the name resolver registers a definition for exactly the shapes that carry a name (Schema::name()) and checks it for an earlier definition; a reference is looked up")
    rn = prog.bodies.get("schema::resolve::resolve_names")
    nb_ = prog.bodies.get("schema::Schema::name")
    if rn is None or nb_ is None:
        rep.anchor_error("C11.R8", "schema::resolve::resolve_names / Schema::name")
    else:
        from wire import Wire as _Wire
        from vpes import top_shapes as _top
        w8 = _Wire(prog)
        nvp = w8.vpes(nb_)
        named8 = set()
        for s_, reg in _top(nvp, 1):
            if any(st["s"] == "assign" and st["rv"]["r"] == "agg" and st["rv"].get("adt") == "std::option::Option" and st["rv"].get("variant") == "Some" for x in reg for st in nb_.blocks[x]["stmts"]):
                named8.add(nvp.shape_name(s_, 1))
        rvp = w8.vpes(rn)
        n8 = 0
        for s_, reg in _top(rvp, 1):
            S_ = rvp.shape_name(s_, 1)
            hm = set(callee_names(rn.blocks[x]["term"]["func"])[0].split("::")[-1] for x in reg if rn.blocks[x]["term"]["t"] == "call" and callee_names(rn.blocks[x]["term"]["func"])[0].startswith("std::collections::HashMap"))
            n8 += 1
            if S_ == "Ref":
                rep.ob("C11.R8", "resolve_names looks a reference up", bool(hm & {"contains_key", "get"}), "", rn.loc())
            elif S_ in named8:
                rep.ob("C11.R8", "resolve_names registers a %s definition (after testing for an earlier one)" % S_, {"insert", "contains_key"} <= hm or ("insert" in hm and "get" in hm),
                       "a named %s is not entered into the name table: a later reference to it is reported unresolved (ResolvedSchema, the datum writers and readers fail for a schema the parser accepted), and a second definition of the name goes unnoticed" % S_, rn.loc())
            else:
                rep.ob("C11.R8", "resolve_names registers nothing for the unnamed shape %s" % S_, "insert" not in hm, "", rn.loc())
        rep.floor("C11.R8", "schema shapes", n8, 31)

    # ------------------------------------------------------------ R7 the default validators are the grammar's regular expressions
    rep.rule("C11.R7", "names, namespaces, enum symbols and field names are checked by the specification validator with the grammar's ASCII character classes, through the regular expression, not by hand-written character tests")
    import re as _re
    TRAITS = ("SchemaNameValidator", "SchemaNamespaceValidator", "EnumSymbolNameValidator", "RecordFieldNameValidator")
    own = [k for k in prog.bodies if k.startswith("<validator::SpecificationValidator as validator::") and k.split("::")[-1] in ("validate", "regex")]
    rep.ob("C11.R7", "SpecificationValidator uses the traits' own validate / regex (no override)", not own, "overrides: %s" % own, prog.bodies[own[0]].loc() if own else "")
    FIRST = set("ABCDEFGHIJKLMNOPQRSTUVWXYZabcdefghijklmnopqrstuvwxyz_")
    REST = FIRST | set("0123456789")

    def expand(cls):
        out = set()
        i = 0
        while i < len(cls):
            if i + 2 < len(cls) and cls[i + 1] == "-":
                out |= set(chr(c) for c in range(ord(cls[i]), ord(cls[i + 2]) + 1))
                i += 3
            else:
                out.add(cls[i])
                i += 1
        return out
    for tr in TRAITS:
        vb_ = prog.bodies.get("validator::%s::validate" % tr)
        rb_ = [b for k, b in prog.bodies.items() if k.startswith("validator::%s::regex" % tr)]
        if vb_ is None or not rb_:
            rep.anchor_error("C11.R7", "validator::%s::{validate, regex}" % tr)
            continue
        uses = set(callee_names(t["func"])[0].split("::")[-1] for _, t in vb_.calls())
        rep.ob("C11.R7", "%s::validate decides with the regular expression" % tr, "regex" in uses and bool(uses & {"is_match", "captures"}), "calls %s" % sorted(uses), vb_.loc())
        lits = [l for b in rb_ for l in b.literals() if isinstance(l, str) and "[" in l]
        okc = bool(lits)
        why = ""
        for lit in lits:
            classes = _re.findall(r"\[([^\]]+)\]", lit)
            for c_ in classes:
                ex = expand(c_)
                if ex != FIRST and ex != REST:
                    okc = False
                    why = "character class [%s]" % c_
            rest_ = _re.sub(r"\[[^\]]+\]", "", lit)
            if _re.search(r"\\[wWdDsSpPbB]|\(\?[a-zA-Z]*i", rest_) or "." in rest_.replace("\\.", ""):
                okc = False
                why = "construct outside the grammar in %r" % lit
        rep.ob("C11.R7", "%s: the regular expression uses only the grammar's classes [A-Za-z_] and [A-Za-z0-9_]" % tr, okc, why, rb_[0].loc())
    uni = []
    for k_, b_ in prog.bodies.items():
        if b_.crate == "apache_avro" and b_.file.endswith(("avro/src/validator.rs", "avro/src/schema/name.rs")):
            for bi, t in b_.calls():
                n_ = callee_names(t["func"])[0]
                if n_.startswith(("core::char::methods::<impl char>::is_", "std::char::methods::<impl char>::is_", "char::methods::<impl char>::is_")) and "ascii" not in n_.split("::")[-1]:
                    uni.append((b_, bi, n_.split("::")[-1]))
    rep.ob("C11.R7", "no Unicode character-class test in the name validators", not uni, "%s" % [(b.path, n) for b, _, n in uni][:3], uni[0][0].loc(uni[0][1]) if uni else "")

    if collect_only:
        return rep
    rep.floor("C11", "obligations", len(rep.obligations), 45)
    rep.not_decided = ["that exactly the well-formed schemas are accepted (regex content, JSON number ranges, defaults of every JSON kind)",
                       "termination / stack depth on adversarial nesting (serde_json's recursion limit is trusted)",
                       "named-kind sibling agreement across Schema::name/is_named/aliases/... (decided with the shape tables of C10)"]
    return common.finish(rep, level="other",
                         explanation="gate rules (construction dominated by the Ok edge of its check, failure edge is Err-only), who-may-construct sets for Name and UnionSchema, loop placement of per-item checks, imported definition-table insert discipline, and a closed panic-site inventory over the call-graph slice of the parse and post-parse entry points",
                         assumptions=["the validator regexes implement the specification's name grammar (content not decided)", "serde_json never panics"], evidence_dir=evidence_dir)
