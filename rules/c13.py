"""C13 — writers never lose data silently on short writes or sink errors.

Structural clauses decided (necessary conditions of the behaviour):
 R1  no call of the *partial* std::io::Write::write on a caller-supplied sink (receiver type is a
     generic parameter / dyn / anything that is not the in-memory Vec<u8>) unless its usize result
     is inspected (compared or used to slice the remainder) in the same function.
 R2  count conservation: in every function that returns AvroResult<usize> and writes to a
     Write-bounded sink, the usize of every count-returning write call flows into the returned
     value (no count is dropped), and the count is not taken from Write::write.
 R3  errors surface: the io::Result / AvroResult of every sink call is consumed (matched, `?`,
     returned); a result that is only dropped is allowed only inside a Drop impl.
 R4  <Writer as Drop>::drop and the local functions it reaches contain no explicit
     unwrap/expect/panic!/unreachable!/index panic outside a table of discharged instances.
"""
import facts as factsmod
from mir import Program, callee_names, forward_taint, local_uses, op_local
import common

WRITE = "std::io::Write::write"
WRITE_ALL = "std::io::Write::write_all"
FLUSH = "std::io::Write::flush"
VEC_WRITE_PREFIXES = ("<std::vec::Vec<u8", "std::io::impls::<impl std::io::Write for std::vec::Vec<u8")


def recv_is_memory(t):
    """receiver of a Write call is the in-memory Vec<u8> (never short, never fails)"""
    res = t["func"].get("res", "")
    aty = t["argtys"][0] if t.get("argtys") else ""
    if "std::vec::Vec<u8" in res:
        return True
    base = aty.replace("&mut ", "").replace("&", "").strip()
    return base.startswith("std::vec::Vec<u8")


def is_count_ty(ty):
    return ty.startswith("std::result::Result<usize, error::Error>") or ty.startswith("std::result::Result<usize, std::io::Error>")


def write_bounded(body):
    for g in body.raw.get("bounds", []):
        if g["tr"] == "std::io::Write":
            return True
    return False


def run(rep, tier="quick", replay=None, evidence_dir=None, collect_only=False):
    prog = Program(factsmod.extract())
    rep.rule("C13.R1", "no partial Write::write on a non-memory sink with an uninspected result")
    rep.rule("C13.R2", "every byte count returned by a write call flows into the returned count")
    rep.rule("C13.R3", "no sink Result is discarded outside Drop")
    rep.rule("C13.R4", "Writer::drop reaches no explicit panic site")
    bodies = prog.by_crate["apache_avro"]

    # ---------- R1 ----------
    raw_sites = 0
    wa_sites = 0
    for b in bodies:
        for bi, t in b.calls():
            names = callee_names(t["func"])
            if WRITE_ALL in names[:1] or FLUSH in names[:1]:
                if not recv_is_memory(t):
                    wa_sites += 1
            if not names or names[0] != WRITE:
                continue
            rep.count("Write::write call sites (all receivers)")
            if recv_is_memory(t):
                rep.count("Write::write on Vec<u8> (exempt by type)")
                continue
            raw_sites += 1
            # is the result inspected? taint from dest to a comparison / slice index
            tainted = forward_taint(b, [t["dest"]["l"]])
            inspected = False
            for bj, sj, st in b.stmts():
                if st["s"] == "assign" and st["rv"]["r"] == "bin" and st["rv"]["op"] in ("Eq", "Ne", "Lt", "Le", "Gt", "Ge"):
                    for o in (st["rv"]["a"], st["rv"]["b"]):
                        if op_local(o) in tainted:
                            inspected = True
            inst = "%s Write::write recv=%s" % (b.path, t["argtys"][0])
            k = sum(1 for o in rep.obligations if o["rule"] == "C13.R1" and o["instance"].startswith(inst))
            if k:
                inst = "%s #%d" % (inst, k + 1)
            rep.ob("C13.R1", inst, inspected,
                   "partial write: `Write::write` may accept fewer bytes than given; result is not compared with the buffer length (use write_all)",
                   b.loc(bi))
            rep.sample({"rule": "C13.R1", "site": b.loc(bi), "fn": b.path, "recv": t["argtys"][0], "inspected": inspected})
    rep.analysed["write_all/flush sites on non-memory sinks"] = wa_sites
    rep.analysed["raw Write::write sites on non-memory sinks"] = raw_sites
    # the rule is a zero-expected rule after the fix: positive control is in selftest (mutant re-introducing .write)
    rep.floor("C13.R1", "write_all/flush call sites on caller sinks (the rule sees the sink calls)", wa_sites, 16)

    # ---------- R2 ----------
    in_scope = {}
    for b in bodies:
        if b.kind == "Closure":
            continue
        if is_count_ty(b.ret) and write_bounded(b):
            in_scope[b.key] = b
    rep.analysed["count-returning writer functions"] = len(in_scope)
    n_calls = 0
    r2_allow = load_table("c13_count_exceptions.toml")
    for b in in_scope.values():
        # closures of b may also write; analyse parent body only for flows, closures separately
        for bi, t in b.calls():
            names = callee_names(t["func"])
            if not names:
                continue
            dty = b.local_ty(t["dest"]["l"]) if not t["dest"]["p"] else ""
            if not is_count_ty(dty):
                continue
            callee = None
            for nme in reversed(names):
                if nme in prog.bodies:
                    callee = prog.bodies[nme]
                    break
            if callee is not None:
                if callee.key not in in_scope:
                    continue   # e.g. safe_len: usize but not a byte count
                what = callee.path
            elif names[0] == WRITE:
                if recv_is_memory(t):
                    continue
                what = "Write::write"
            else:
                # unresolved trait method returning the serializer's Ok = usize
                if not (names[0].startswith("serde::") or names[0].startswith("serde_core::") or "Serialize" in names[0]):
                    continue
                what = names[0]
            if any("std::vec::Vec<u8>" in a for a in t.get("argtys", [])):
                rep.count("count-returning calls into an in-memory Vec<u8> (count not part of the sink total)")
                continue
            n_calls += 1
            tainted = forward_taint(b, [t["dest"]["l"]], skip_variants=("Break", "Err"))
            flows = 0 in tainted
            inst = "%s count of %s" % (b.path, what)
            # several calls to the same callee in one function share the key: disambiguate by ordinal
            k = sum(1 for o in rep.obligations if o["rule"] == "C13.R2" and o["instance"].startswith(inst))
            if k:
                inst = "%s #%d" % (inst, k + 1)
            if not flows and inst in r2_allow:
                rep.ob("C13.R2", inst, True, "discharged: " + r2_allow[inst], b.loc(bi))
                continue
            rep.ob("C13.R2", inst, flows,
                   "the byte count returned by this call never reaches the function's returned count (bytes written are under-reported)",
                   b.loc(bi))
            if not flows:
                rep.sample({"rule": "C13.R2", "site": b.loc(bi), "fn": b.path, "callee": what})
    rep.analysed["count-returning write calls checked"] = n_calls
    rep.floor("C13.R2", "count-returning writer functions", len(in_scope), 95)
    rep.floor("C13.R2", "count-returning write calls", n_calls, 155)

    # R2 (continued): the byte count a sub-serializer starts from (`bytes_written` parameter) is a number of bytes: nothing,
    # the caller's own running count, or a count returned by a write call - never another quantity such as an entry count
    n2b = 0
    for b in bodies:
        for bi, t in b.calls():
            cal = None
            for nme in reversed(callee_names(t["func"])):
                if nme in prog.bodies and prog.bodies[nme].kind != "Closure":
                    cal = prog.bodies[nme]
                    break
            if cal is None:
                continue
            for pi in range(1, cal.argc + 1):
                if (cal.local_name(pi) or "") != "bytes_written" or pi - 1 >= len(t["args"]):
                    continue
                a = t["args"][pi - 1]
                n2b += 1
                ok2 = False
                why2 = b.opdesc(a)
                if a.get("k") == "const":
                    ok2 = True     # a literal (None is a constant for Option<usize>)
                elif a.get("k") in ("copy", "move"):
                    r_ = b.resolve_operand(a)
                    root = r_[0] if r_ else None
                    sd_ = b.single_def(root) if root is not None else None
                    if root is not None and 1 <= root <= b.argc:
                        ok2 = "bytes_written" in (b.local_name(root) or "") or "bytes_written" in b.opdesc(a)
                        why2 = "parameter `%s`" % (b.local_name(root) or b.opdesc(a))
                    elif sd_ and sd_[2] == "assign" and sd_[3]["r"] == "agg" and sd_[3].get("adt") == "std::option::Option":
                        if sd_[3].get("variant") == "None":
                            ok2 = True
                        else:
                            inner = sd_[3]["ops"][0]
                            # Some(x): x comes from a count-returning write (its Ok payload) or from the caller's running count
                            cnt_src = [tt["dest"]["l"] for _, tt in b.calls() if not tt["dest"]["p"] and is_count_ty(b.local_ty(tt["dest"]["l"]) or "")]
                            tainted2 = forward_taint(b, cnt_src, through_calls=True) if cnt_src else set()
                            il = op_local(inner)
                            ok2 = (il in tainted2) or "bytes_written" in b.opdesc(inner) or (inner.get("k") == "const")
                            why2 = "Some(%s)" % b.opdesc(inner)
                    elif "bytes_written" in b.opdesc(a):
                        ok2 = True
                inst = "%s starts %s's byte count from a byte count" % (b.path if b.kind != "Closure" else b.parent, cal.path.split("::")[-2] + "::" + cal.path.split("::")[-1])
                k = sum(1 for o in rep.obligations if o["rule"] == "C13.R2" and o["instance"].startswith(inst))
                rep.ob("C13.R2", inst + ("" if not k else " #%d" % (k + 1)), ok2,
                       "the sub-serializer's running byte count is initialised with %s, which is not a number of bytes written: the count returned to the caller is wrong by that amount" % why2, b.loc(bi))
    rep.floor("C13.R2", "sub-serializer constructions with an initial byte count", n2b, 20)

    # ---------- R3 ----------
    n3 = 0
    for b in bodies:
        in_drop = b.path.endswith("as std::ops::Drop>::drop") or (b.parent or "").endswith("as std::ops::Drop>::drop")
        for bi, t in b.calls():
            names = callee_names(t["func"])
            if not names:
                continue
            sinkcall = names[0] in (WRITE, WRITE_ALL, FLUSH) and not recv_is_memory(t)
            callee = prog.bodies.get(names[-1]) or prog.bodies.get(names[0])
            localwriter = callee is not None and callee.key in in_scope
            if not (sinkcall or localwriter):
                continue
            if t["dest"]["p"]:
                continue
            n3 += 1
            uses = [u for u in local_uses(b, t["dest"]["l"])]
            is_ret = t["dest"]["l"] == 0
            ok = bool(uses) or is_ret
            if not ok and in_drop:
                rep.count("results discarded inside Drop (allowed)")
                continue
            inst = "%s discards result of %s" % (b.path, names[0] if sinkcall else callee.path)
            rep.ob("C13.R3", inst, ok, "the Result of a sink write is dropped without being examined: a sink error would be lost", b.loc(bi))
    rep.analysed["sink-result call sites checked"] = n3
    rep.floor("C13.R3", "sink-result call sites", n3, 190)

    # ---------- R4 ----------
    drops = [b for b in bodies if b.path.endswith("as std::ops::Drop>::drop") and "writer::Writer" in b.path]
    if not drops:
        rep.anchor_error("C13.R4", "<writer::Writer as Drop>::drop")
    else:
        # the Writer's own methods reachable from drop (self type writer::Writer), plus drop itself
        cg = prog.callgraph()
        own = lambda k: k in prog.bodies and ("writer::Writer" in prog.bodies[k].raw.get("impl_self", "") or prog.bodies[k].path.startswith("writer::Writer::<"))
        seen = set(d.key for d in drops)
        st = list(seen)
        while st:
            x = st.pop()
            for y in cg.get(x, ()):
                if y not in seen and (own(y) or (prog.bodies.get(y) is not None and prog.bodies[y].parent and own(prog.bodies[y].parent))):
                    seen.add(y)
                    st.append(y)
        rep.analysed["Writer methods reachable from Writer::drop"] = len(seen)
        rep.floor("C13.R4", "Writer methods reachable from drop (drop, flush, maybe_write_header, header, append_*)", len(seen), 6)
        PANICS = ("core::panicking::panic", "core::panicking::panic_fmt", "core::panicking::unreachable_display",
                  "std::option::Option::<T>::unwrap", "std::option::Option::<T>::expect",
                  "std::result::Result::<T, E>::unwrap", "std::result::Result::<T, E>::expect",
                  "std::result::Result::<T, E>::unwrap_err", "std::result::Result::<T, E>::expect_err",
                  "core::panicking::assert_failed", "core::panicking::panic_explicit")
        for k in sorted(seen):
            fb = prog.bodies[k]
            bad = []
            for bi, t in fb.calls():
                names = callee_names(t["func"])
                if names and names[0] in PANICS:
                    bad.append((names[0], fb.loc(bi)))
            rep.ob("C13.R4", "%s has no unwrap/expect/panic" % fb.path, not bad,
                   "explicit panic site in a Writer method reachable from Drop: %s" % bad, bad[0][1] if bad else fb.loc())
        # drop itself must not propagate: it has no `?` (returns ()) and discards results: covered by R3 in_drop accounting

    # ---------- R5: writer state may claim "sent" only after the sink accepted the bytes ----------
    # If `has_header` (or the pending-block reset) is updated before the corresponding sink write succeeded, a sink
    # error is reported once and every later call returns Ok while the file silently lacks those bytes.
    # These are C03.R3/R4 instances (flush resets after the marker write; header flag after the header write).
    rep.rule("C13.R5", "state that records bytes as delivered is updated only on the Ok edge of the sink write (C03.R3/R4 instances)")
    import c03
    sub = common.Report("C03", tier, 0)
    c03.run(sub, tier=tier, collect_only=True)
    n5 = 0
    for o in sub.obligations:
        if o["rule"] in ("C03.R4",) or (o["rule"] == "C03.R3" and ("clear" in o["instance"] or "reset" in o["instance"] or "num_values = 0" in o["instance"])):
            n5 += 1
            rep.ob("C13.R5", "[%s] %s" % (o["rule"], o["instance"]), o["ok"], o["detail"], o["loc"])
    # a reusable message buffer is restored when the sink write fails, too (C18.R3 instances): otherwise the next message
    # delivered to the sink is not the byte sequence an in-memory buffer would have received
    import c18
    sub18 = common.Report("C18", tier, 0)
    c18.run(sub18, tier=tier, collect_only=True)
    for o in sub18.obligations:
        if o["rule"] == "C18.R3":
            n5 += 1
            rep.ob("C13.R5", "[%s] %s" % (o["rule"], o["instance"]), o["ok"], o["detail"], o["loc"])
    rep.floor("C13.R5", "imported state-after-write obligations", n5, 3)

    # ---------- R6: an error of a sink write ends the operation ----------
    rep.rule("C13.R6", "the error of a sink write is never absorbed: wherever a Result that carries a sink write's outcome is branched on, the Err edge can only return an error")
    import trial
    import shape
    COMB = ("std::result::Result::<T, E>::and_then", "std::result::Result::<T, E>::map", "std::result::Result::<T, E>::map_err", "std::result::Result::<T, E>::or_else",
            "std::result::Result::<T, E>::and", "std::result::Result::<T, E>::inspect_err", "std::result::Result::<T, E>::inspect")

    def is_sink_call(b, t):
        names = callee_names(t["func"])
        if not names:
            return False
        if names[0] in (WRITE, WRITE_ALL, FLUSH):
            return not recv_is_memory(t)
        callee = prog.bodies.get(names[-1]) or prog.bodies.get(names[0])
        if callee is not None and callee.key in in_scope:
            # a local writer function: its sink is the argument of the Write-bounded type; an in-memory Vec is not a sink
            return not any("std::vec::Vec<u8>" in a for a in t.get("argtys", []))
        return False

    def closure_has_sink(defpath, depth=0):
        cb = prog.bodies.get(defpath)
        if cb is None:
            return False
        for _, t in cb.calls():
            if is_sink_call(cb, t):
                return True
        if depth < 2:
            for _, _, st in cb.stmts():
                if st["s"] == "assign" and st["rv"]["r"] == "agg" and st["rv"].get("ak") == "closure" and closure_has_sink(st["rv"].get("def"), depth + 1):
                    return True
        return False
    n6 = 0
    for b in bodies:
        in_drop = b.path.endswith("as std::ops::Drop>::drop") or (b.parent or "").endswith("as std::ops::Drop>::drop")
        if in_drop:
            continue
        carriers = {}   # local -> block of the originating call
        for bi, t in b.calls():
            if not t["dest"]["p"] and is_sink_call(b, t) and "Result<" in (b.local_ty(t["dest"]["l"]) or ""):
                carriers[t["dest"]["l"]] = bi
        changed = True
        while changed:
            changed = False
            for bi, t in b.calls():
                names = callee_names(t["func"])
                if not names or names[0] not in COMB or t["dest"]["p"] or t["dest"]["l"] in carriers:
                    continue
                hit = False
                for a in t["args"]:
                    if a.get("k") in ("copy", "move") and not a["pl"]["p"]:
                        if a["pl"]["l"] in carriers:
                            hit = True
                        sd = b.single_def(a["pl"]["l"])
                        if sd and sd[2] == "assign" and sd[3]["r"] == "agg" and sd[3].get("ak") == "closure" and names[0].endswith(("and_then", "or_else")) and closure_has_sink(sd[3].get("def")):
                            hit = True
                if hit:
                    carriers[t["dest"]["l"]] = bi
                    changed = True
        for l, obi in sorted(carriers.items()):
            for sw, ok_t, err_t in trial.result_branches(b, l):
                if err_t is None:
                    continue
                n6 += 1
                good = shape.edge_must_err(b, sw, err_t)
                inst = "%s: Err edge of the result of %s only returns an error" % (b.path, callee_names(b.blocks[obi]["term"]["func"])[0].split("::")[-1])
                k = sum(1 for o in rep.obligations if o["rule"] == "C13.R6" and o["instance"].startswith(inst))
                if k:
                    inst = "%s #%d" % (inst, k + 1)
                rep.ob("C13.R6", inst, good, "a failure of the caller's sink is treated as an ordinary condition and execution continues (e.g. the next alternative is tried): the caller gets Ok, or another error, for bytes that were lost", b.loc(sw))
    rep.analysed["branches on results that carry a sink write's outcome"] = n6
    rep.floor("C13.R6", "branches on sink-carrying results", n6, 85)

    if collect_only:
        return rep
    rep.not_decided = ["behaviour of particular sinks; Interrupted handling inside std's write_all",
                       "equality of the delivered byte sequence with the in-memory encoding (needs execution)"]
    return common.finish(rep, level="other",
                         explanation="static rules over MIR facts of apache_avro: raw partial writes on caller sinks, dropped byte counts, discarded sink results, panic sites reachable from Writer::drop. Decides these structural clauses, not the run-time behaviour of sinks.",
                         assumptions=["std::io::Write::write_all and Vec<u8>'s Write impl are correct", "library crates (serde_json, codecs) do not panic on the writer side"],
                         evidence_dir=evidence_dir)


def load_table(name):
    import os
    import tomllib
    p = os.path.join(common.VERIF, "rules", "tables", name)
    if not os.path.exists(p):
        return {}
    with open(p, "rb") as fh:
        d = tomllib.load(fh)
    return {e["key"]: e["reason"] for e in d.get("allow", [])}
