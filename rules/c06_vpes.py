def run(prog, rep):
    pass
