"""C06.R2 variant conformance and index range checks, from the shape tables (wiretab)."""
from mir import callee_names, calls_named, op_local, edge_only_region
import shape
import wiretab


def run(prog, rep):
    rep.rule("C06.R2", "for every schema shape the decoder builds only the Value variant that validation accepts for it; enum and union indices are range-checked before a value is built")
    T = wiretab.tables(prog)
    sp = wiretab.spec()
    dec, val = T["dec"], T["val"]
    rep.floor("C06.R2", "schema shapes", len(dec), 31)
    vshapes = set(k[1] for k in val)
    for s in sorted(dec):
        d = dec[s]
        loc = d["tokens"][0].loc if d["tokens"] else ""
        row = sp.get(s)
        if row is None or not row["value"]:
            continue
        v = row["value"]
        allowed = set([v] + row.get("via", []))
        rep.ob("C06.R2", "decode %s builds Value::%s and nothing else on its success paths" % (s, v), v in d["values_ok"] and set(d["values_ok"]) <= allowed,
               "decoder builds %s on paths that can return Ok (a value of another kind would be an invented or mis-typed datum)" % d["values_ok"], loc)
        # the validator accepts that variant for the shape
        accepts = [e["cls"] for _, e in wiretab.val_for(T, v, s)]
        rep.ob("C06.R2", "validate accepts Value::%s for %s" % (v, s), bool(accepts) and all(c != "never" for c in accepts),
               "validate_internal has no accepting arm for (%s, %s): %s" % (v, s, accepts), loc)
    # index range checks in the decoder
    b = prog.body("decode::decode_internal")
    w = T["wire"]
    vp = w.vpes(b)
    root = [r for r, a in vp.roots.items() if a == "schema::Schema"][0]
    # Enum: the Value::Enum aggregate is only reachable through the true edge of Range::contains(index)
    reg = vp.region({(root, ()): "Enum"})
    aggs = [(bi, st) for bi, st in shape.aggregates(b, "types::Value", "Enum") if bi in reg]
    cont = [(bi, t) for bi, t in calls_named(b, "std::ops::Range::<Idx>::contains", "std::ops::RangeInclusive::<Idx>::contains") if bi in reg]
    ltc = []
    for bi, si, st in b.stmts():
        if bi in reg and st["s"] == "assign" and st["rv"]["r"] == "bin" and st["rv"]["op"] in ("Lt", "Ge", "Gt", "Le"):
            ltc.append((bi, st))
    ok = False
    if len(aggs) == 1:
        for cbi, ct in cont:
            sw = shape.call_bool_switch(b, cbi)
            if sw and b.dominates(sw[2], aggs[0][0]) and edge_only_region(b, sw[0], sw[2]) is not None:
                ok = True
        gets = [(bi, t) for bi, t in calls_named(b, "core::slice::<impl [T]>::get") if bi in reg]
        for gbi, gt in gets:
            sw = shape.option_switch(b, gt["dest"]["l"])
            if sw and b.dominates(sw[2], aggs[0][0]):
                ok = True
    rep.ob("C06.R2", "decode Enum: Value::Enum is built only after the index was found to be within the symbols", ok,
           "an out-of-range enum index would be returned as a value (or index the symbol table out of bounds)", b.loc(aggs[0][0]) if aggs else b.loc())
    reg = vp.region({(root, ()): "Union"})
    aggs = [(bi, st) for bi, st in shape.aggregates(b, "types::Value", "Union") if bi in reg]
    gets = [(bi, t) for bi, t in calls_named(b, "core::slice::<impl [T]>::get") if bi in reg]
    ok = False
    if len(aggs) == 1 and len(gets) == 1:
        oo = [c for c in calls_named(b, "std::option::Option::<T>::ok_or", "std::option::Option::<T>::ok_or_else") if op_local(c[1]["args"][0]) == gets[0][1]["dest"]["l"]]
        if len(oo) == 1:
            ok = shape.gated_by_ok(b, oo[0][0], aggs[0][0]) and shape.err_edge_only_err(b, oo[0][0])
        sw = shape.option_switch(b, gets[0][1]["dest"]["l"])
        if sw and b.dominates(sw[2], aggs[0][0]) and shape.only_err(b, edge_only_region(b, sw[0], sw[1])):
            ok = True
    rep.ob("C06.R2", "decode Union: the branch is looked up with a checked get and a missing branch is an error", ok,
           "a branch index outside the union would not be rejected", b.loc(aggs[0][0]) if aggs else b.loc())
