"""shared: the *reading set* (functions that consume untrusted bytes) found by role, and the
'result of a read' notion used by C05/C06/C14."""
import re
from mir import callee_names, forward_taint, op_local

READ_TRAIT = "std::io::Read"
ADAPTERS = (
    "std::result::Result::<T, E>::map_err",
    "std::result::Result::<T, E>::map",
    "error::Error::into_details",
    "std::result::Result::<T, E>::or_else",
    "std::result::Result::<T, E>::inspect_err",
)
INVENTORS = (
    "std::result::Result::<T, E>::unwrap_or",
    "std::result::Result::<T, E>::unwrap_or_default",
    "std::result::Result::<T, E>::unwrap_or_else",
    "std::result::Result::<T, E>::ok",
    "std::result::Result::<T, E>::is_ok",
    "std::result::Result::<T, E>::is_err",
)


def read_params(body, prog):
    """names of generic params of this body (or its parent, for closures) bounded by std::io::Read"""
    b = body
    if body.kind == "Closure" and body.parent:
        b = prog.bodies.get(body.parent, body)
    return sorted(set(g["ty"] for g in b.raw.get("bounds", []) if g["tr"] == READ_TRAIT))


def read_functions(prog):
    """role: local functions with a Read-bounded generic (incl. methods of impl<R: Read> types) + closures inside them"""
    out = {}
    for b in prog.by_crate["apache_avro"]:
        if read_params(b, prog):
            out[b.key] = b
    return out


_cache = {}


def read_functions(prog):  # noqa: F811  (refined: only functions that transitively perform a read)
    if id(prog) in _cache:
        return _cache[id(prog)]
    cand = {}
    for b in prog.by_crate["apache_avro"]:
        if read_params(b, prog):
            cand[b.key] = b
    actual = set()
    changed = True
    while changed:
        changed = False
        for k, b in cand.items():
            if k in actual:
                continue
            hit = False
            for bi, op in b.fn_consts():
                for nm in callee_names(op):
                    if nm.startswith("std::io::Read::") or nm.startswith("std::io::BufRead::") or nm in actual:
                        hit = True
                if op.get("closure") in actual:
                    hit = True
            if hit:
                actual.add(k)
                changed = True
    out = dict((k, cand[k]) for k in actual)
    _cache[id(prog)] = out
    return out


def is_read_call(t, readfns, prog):
    names = callee_names(t["func"])
    if not names:
        return None
    if names[0].startswith("std::io::Read::") or names[0].startswith("std::io::BufRead::"):
        return names[0]
    for nm in reversed(names):
        if nm in readfns and prog.bodies[nm].kind != "Closure":
            return nm
    return None


def read_results(body, readfns, prog):
    """locals holding (possibly adapted) Results of read calls: returns (seeds{local: callee}, tainted set)"""
    seeds = {}
    for bi, t in body.calls():
        rc = is_read_call(t, readfns, prog)
        if rc and not t["dest"]["p"]:
            ty = body.local_ty(t["dest"]["l"])
            if ty.startswith("std::result::Result<"):
                seeds[t["dest"]["l"]] = (rc, bi)
    if not seeds:
        return seeds, {}
    # propagate through result adapters only (and plain moves)
    origin = dict((l, v) for l, v in seeds.items())
    changed = True
    while changed:
        changed = False
        for bi, si, st in body.stmts():
            if st["s"] != "assign" or st["pl"]["p"]:
                continue
            rv = st["rv"]
            if rv["r"] == "use":
                l = op_local(rv["o"])
                if l in origin and not rv["o"]["pl"]["p"] and st["pl"]["l"] not in origin:
                    origin[st["pl"]["l"]] = origin[l]
                    changed = True
        for bi, t in body.calls():
            names = callee_names(t["func"])
            if not names or names[0] not in ADAPTERS:
                continue
            if t["dest"]["p"] or t["dest"]["l"] in origin:
                continue
            a0 = op_local(t["args"][0]) if t["args"] else None
            if a0 in origin:
                origin[t["dest"]["l"]] = origin[a0]
                changed = True
    return seeds, origin


def err_edges(body, origin):
    """for every switch on the discriminant of a read-result local: (switch block, ok target, err target, callee)"""
    out = []
    discr_of = {}
    for bi, si, st in body.stmts():
        if st["s"] == "assign" and st["rv"]["r"] == "discr" and not st["pl"]["p"]:
            pl = st["rv"]["pl"]
            if pl["l"] in origin and not pl["p"] and st["rv"].get("adt") == "std::result::Result":
                discr_of[st["pl"]["l"]] = (pl["l"], bi)
    for bi in range(body.n):
        t = body.blocks[bi]["term"]
        if t["t"] != "switch":
            continue
        l = op_local(t["discr"])
        if l not in discr_of:
            continue
        src, dbi = discr_of[l]
        tg = dict((v, b_) for v, b_ in t["targets"])
        ok_t = tg.get(0)
        err_t = tg.get(1)
        if err_t is None:
            err_t = t["otherwise"] if ok_t is not None else None
        if ok_t is None:
            ok_t = t["otherwise"] if 1 in tg else None
        out.append((bi, ok_t, err_t, origin[src]))
    return out


def edge_region(body, sw, tgt):
    """blocks that are only reachable through the edge sw->tgt (tgt must have sw as its only predecessor)"""
    if tgt is None:
        return None
    preds = [p for p in body.pred[tgt] if p in body.dom]
    if preds != [sw] and set(preds) != {sw}:
        return None
    return set(x for x in body.dom if tgt in body.dom[x])


def ok_constructions(body, region):
    """(block, what) for statements in region that build Result::Ok / Option::Some(..) into the return place"""
    out = []
    # locals flowing to _0 by plain assignment/aggregate
    flows = forward_taint_back(body)
    for bi in sorted(region):
        for st in body.blocks[bi]["stmts"]:
            if st["s"] != "assign":
                continue
            rv = st["rv"]
            if rv["r"] == "agg" and rv.get("ak") == "adt" and rv.get("adt") == "std::result::Result" and rv.get("variant") == "Ok":
                if st["pl"]["l"] in flows:
                    out.append((bi, st))
    return out


def forward_taint_back(body):
    """set of locals whose value can flow into the return place _0 through assignments (no calls)"""
    flows = {0}
    changed = True
    while changed:
        changed = False
        for bi, si, st in body.stmts():
            if st["s"] != "assign":
                continue
            if st["pl"]["l"] in flows:
                from mir import rv_places
                for pl in rv_places(st["rv"]):
                    if pl["l"] not in flows:
                        flows.add(pl["l"])
                        changed = True
    return flows
