"""C07 — values accepted by validation are written readably; rejected ones write nothing.

Structural clauses decided:
 R1 accept => encodable and readable  for every (Value variant V, schema shape S) for which validate_internal has an
                 accepting path, encode_internal(V, S) has a success path and the stream tokens it writes are the ones
                 decode_internal(S) reads (INT and LONG count as the same wire form: both are zig-zag varints of the same
                 number). Special forms that are readable by construction are listed in tables/c07_special.toml with a
                 machine-checked shape (e.g. a bare value for a union: branch index, then the value).
 R2 validate first  in every validating write path the validate_internal call dominates the encode call and the first
                 write to the caller's sink, the reject edge returns Err and reaches no encode / sink write.
 R3 enum index   the encoder's Value::Enum arm looks at the schema's symbols (validation accepts an out-of-range index
                 when the enum has a default, so the index cannot be written blindly).
Not decided: that the decoded value equals the canonical representation for concrete values; union branch choice.
"""
import os
import tomllib
import facts as factsmod
from mir import Program, callee_names, op_local, calls_named, edge_only_region
import common
import shape
import wiretab


def widen(seq_):
    return ["LONG" + x[3:] if x.startswith("INT") else x for x in seq_]


def run(rep, tier="quick", replay=None, evidence_dir=None):
    prog = Program(factsmod.extract())
    rep.rule("C07.R1", "every (value, schema) pair that validation can accept is encoded successfully into the bytes the decoder reads for that schema")
    rep.rule("C07.R2", "validation dominates encoding and the first sink write; a rejected value reaches neither")
    rep.rule("C07.R3", "the encoder bounds an enum index by the schema's symbols")
    T = wiretab.tables(prog)
    val, dec = T["val"], T["dec"]
    with open(os.path.join(common.VERIF, "rules", "tables", "c07_special.toml"), "rb") as fh:
        special = dict(((e["value"], e["shape"]), e) for e in tomllib.load(fh).get("pair", []))
    acc = sorted(k for k, v in val.items() if v["cls"] != "never")
    rep.analysed["(value, shape) pairs validation can accept"] = len(acc)
    rep.analysed["of these accepted unconditionally"] = sum(1 for k in acc if val[k]["cls"] == "always")
    rep.floor("C07.R1", "accepted (value, shape) pairs", len(acc), 90)
    dshapes = set(dec)
    n = 0
    for (v, s) in acc:
        for ds in wiretab.refine(s, dshapes):
            d = dec[ds]
            for es, e in wiretab.enc_for(T, v, ds):
                n += 1
                loc = e["tokens"][0].loc if e["tokens"] else (d["tokens"][0].loc if d["tokens"] else "")
                inst = "accepted pair (%s, %s)" % (v, ds if es == ds else es)
                if not e["can_ok"] or not e["paths"]:
                    rep.ob("C07.R1", inst + " is encodable", False,
                           "validate_internal accepts Value::%s for schema %s (%s) but encode_internal has no success path for it: the validating writers return an encoding error for a value they validated" % (v, ds, val[(v, s)]["cls"]), loc)
                    continue
                ep = sorted(set(tuple(wiretab.stream(p_)) for p_ in e["paths"]))
                ep = [list(x) for x in ep]
                dp = [list(x) for x in sorted(set(tuple(wiretab.stream(p_)) for p_ in d["paths"]))]
                if ds == "BigDecimal" and v == "BigDecimal":
                    # the outer length prefix is written inside serialize_big_decimal: agreement is C01.R1's obligation
                    rep.ob("C07.R1", inst + " is written through serialize_big_decimal", e["paths"] == [["BIGDEC", "RAW:VAR"]], "writer paths %s" % e["paths"], loc)
                    continue
                spc = special.get((v, ds)) or special.get((v, ds.split("(")[0])) or special.get(("*", ds))
                if ds == "Ref":
                    ok = all(p == ["RECUR"] for p in ep)
                    rep.ob("C07.R1", inst + " follows the reference", ok, "writer paths %s" % ep, loc)
                    continue
                if spc is not None and (spc["value"] != "*" or v not in spc.get("except", [])):
                    want = sorted(spc["enc"])
                    rep.ob("C07.R1", inst + " is written in its listed special form (%s)" % spc["why"], bool(ep) and all(p_ in want for p_ in ep), "writer paths %s, readable forms listed %s" % (ep, want), loc)
                    continue
                if ds in ("Array", "Map"):
                    # structural agreement is C01.R1's obligation for (Array, Array) / (Map, Map)
                    rep.ob("C07.R1", inst + " is written as count, items, terminator", any(p and p[0] == "LONG" and p[-1] == "RAW:1=0" for p in ep), "writer paths %s" % ep, loc)
                    continue
                ok = len(ep) == len(dp) and all(wiretab.streams_agree(widen(pe), widen(pd)) for pe, pd in zip(ep, dp))
                rep.ob("C07.R1", inst + " is written as the decoder reads it", ok,
                       "validate_internal accepts Value::%s for schema %s, encode_internal writes %s, decode_internal(%s) reads %s: the bytes are not a datum of that schema" % (v, ds, ep, ds, dp), loc)
    rep.analysed["accepted pairs compared with the decoder"] = n

    # ---------------------------------------------------------------- R2
    sites = []
    for b in prog.by_crate["apache_avro"]:
        if b.kind == "Closure" or b.path.startswith("types::Value::"):
            continue
        vc = calls_named(b, "types::Value::validate_internal")
        if vc:
            sites.append((b, vc))
    rep.analysed["validating write paths"] = len(sites)
    rep.floor("C07.R2", "functions that validate before writing", len(sites), 3)
    for b, vc in sites:
        encs = calls_named(b, "encode::encode_internal", "encode::encode", "writer::Writer::<'a, W>::unvalidated_append_value_ref", "encode::encode_to_vec")
        sink = [(bi, t) for bi, t in calls_named(b, "std::io::Write::write_all", "std::io::Write::write")]
        if not encs and not sink:
            continue
        ok = len(vc) == 1 and all(b.dominates(vc[0][0], x[0]) for x in encs + sink)
        how = ""
        if not ok and len(vc) == 1:
            # validation switched off by a configuration flag of the writer (`self.validate`): with the flag's false
            # edge removed the validate call must lie on every path to the encode / sink write
            for sbi in range(b.n):
                t = b.blocks[sbi]["term"]
                if t["t"] != "switch" or t["discr"].get("k") not in ("copy", "move"):
                    continue
                desc = b.pldesc(t["discr"]["pl"])
                if not desc.startswith("self.") or "valid" not in desc:
                    continue
                false_t = dict(t["targets"]).get(0)
                succ = [list(x) for x in b.succ]
                succ[sbi] = [x for x in succ[sbi] if x != false_t]
                seen = b.reachable(0, avoid={vc[0][0]}, succ=succ)
                if not any(x[0] in seen for x in encs + sink):
                    ok = True
                    how = " (when %s is set)" % desc
        rep.ob("C07.R2", "%s validates before it encodes or writes%s" % (b.path, ""), ok, "validate_internal must dominate every encode / sink write" + how, b.loc(vc[0][0]))
        # reject edge: Some(reason) / is_some() true -> Err only, no encode
        d = vc[0][1]["dest"]["l"]
        sw = shape.option_switch(b, d)
        good = False
        if sw:
            reg = edge_only_region(b, sw[0], sw[2])
            good = reg is not None and shape.only_err(b, reg) and not any(x[0] in reg for x in encs + sink)
        rep.ob("C07.R2", "%s: a rejected value returns an error and reaches no encode / sink write" % b.path, good, "", b.loc(vc[0][0]))
    # ---------------------------------------------------------------- R3
    enc = prog.body("encode::encode_internal")
    w = T["wire"]
    vp = w.vpes(enc)
    vroot = [r for r, a in vp.roots.items() if a == "types::Value"][0]
    sroot = [r for r, a in vp.roots.items() if a == "schema::Schema"][0]
    reg = vp.region({(vroot, ()): "Enum", (sroot, ()): "Enum"})
    looks = False
    for bi in reg:
        for st in enc.blocks[bi]["stmts"]:
            if st["s"] == "assign":
                txt = str(st["rv"])
                if "'symbols'" in txt:
                    looks = True
    rep.ob("C07.R3", "encode (Enum, Enum) consults the schema's symbols", looks,
           "validation accepts an index outside the symbols when the enum declares a default; writing the index unchecked produces a datum no reader accepts", enc.loc())

    # the bound test: `index >= symbols.len()` selects the default, `index < len` writes the index (no off-by-one)
    polarity = None
    for bi in reg:
        for st in enc.blocks[bi]["stmts"]:
            if st["s"] == "assign" and st["rv"]["r"] == "bin" and st["rv"]["op"] in ("Ge", "Gt", "Lt", "Le"):
                a, c = st["rv"]["a"], st["rv"]["b"]
                def is_len(o):
                    cr = enc.call_result_of(o) if o.get("k") in ("copy", "move") else None
                    return bool(cr and callee_names(cr[1]["func"])[0].endswith("::len"))
                def is_index(o):
                    if o.get("k") not in ("copy", "move"):
                        return False
                    l0 = op_local(o)
                    seen = 0
                    while l0 is not None and seen < 4:
                        seen += 1
                        sd = enc.single_def(l0)
                        if sd and sd[2] == "assign" and sd[3]["r"] == "cast":
                            l0 = op_local(sd[3]["o"])
                            continue
                        if sd and sd[2] == "assign" and sd[3]["r"] == "use" and sd[3]["o"].get("k") in ("copy", "move"):
                            return "as Enum" in enc.pldesc(sd[3]["o"]["pl"])
                        break
                    return False
                op = st["rv"]["op"]
                if is_index(a) and is_len(c):
                    polarity = op in ("Ge", "Lt")
                elif is_len(a) and is_index(c):
                    polarity = op in ("Le", "Gt")
    rep.ob("C07.R3", "encode (Enum, Enum): the index is compared with symbols.len() as `index >= len` / `index < len`", polarity is True,
           "off by one: an index equal to the number of symbols is outside the symbols but would be written as it is" if polarity is False else "no comparison of the index with symbols.len() found", enc.loc())
    # ---------------- R4: a bare array / map is accepted for a union only after it resolved against that branch
    rep.rule("C07.R4", "union branch lookup re-checks array and map values against the branch before accepting them")
    fs = prog.bodies.get("schema::union::UnionSchema::find_schema_with_known_schemata")
    if fs is None:
        rep.anchor_error("C07.R4", "find_schema_with_known_schemata")
    else:
        kinds = set()
        for cb in prog.with_closures(fs):
            has_resolve = bool(calls_named(cb, "types::Value::resolve_internal"))
            if not has_resolve:
                continue
            for bi, t in cb.calls():
                nm = callee_names(t["func"])
                if nm and nm[0] in ("std::cmp::PartialEq::eq", "std::cmp::PartialEq::ne"):
                    for a in t["args"]:
                        v = cb.op_const(a).get("variant")
                        if v and v[0] == "schema::SchemaKind":
                            kinds.add(v[1])
        rep.ob("C07.R4", "find_schema_with_known_schemata resolves the value against the branch for both Map and Array branches", {"Map", "Array"} <= kinds,
               "kinds re-checked: %s. An array (or map) whose items do not fit the branch is accepted by validation, and the writers emit bytes for it before the item fails (or silently corrupt ones)" % sorted(kinds), fs.loc())

    # ---------------- R5 abandoned trial encodings
    rep.rule("C07.R5", "a failed trial encoding leaves no bytes: the scratch buffer is cleared on the failure edge before it is used again")
    import trial
    tr = [x for x in trial.scan(prog) if x["swallowed"]]
    for x in tr:
        rep.ob("C07.R5", "%s: %s(.., &mut %s) failed -> buffer reset before reuse" % (x["fn"], x["callee"], x["buffer"]), x["ok"],
               x["detail"] + "; the bytes of the abandoned attempt would be written in front of the next attempt", x["loc"])
    rep.floor("C07.R5", "trial encodings into a reused scratch buffer (encode_internal: bare record for a union)", len(tr), 1)

    # ---------------- R6 reusable write buffers are restored on every exit (imported)
    rep.rule("C07.R6", "an accepted value reaches the output exactly once: reusable buffers are rolled back, pending blocks are flushed on the object count and reset afterwards (C03.R1/R3/R8, C18.R3 instances)")
    import c03
    import c18
    n6 = 0
    for mod, pid_, rules_ in ((c03, "C03", ("C03.R1", "C03.R3", "C03.R8")), (c18, "C18", ("C18.R3",))):
        sub = common.Report(pid_, tier, 0)
        mod.run(sub, tier=tier, collect_only=True)
        for o in sub.obligations:
            if o["rule"] in rules_:
                n6 += 1
                rep.ob("C07.R6", "[%s] %s" % (o["rule"], o["instance"]), o["ok"], o["detail"], o["loc"])
    rep.floor("C07.R6", "imported rollback obligations", n6, 8)
    # ---------------- R7 a bare value is matched to a union branch by the same base kind the branch is registered under
    rep.rule("C07.R7", "the base kind a bare value is looked up under in a union (value_to_base_schemakind) is the base kind under which the branch that represents it is registered (schema_to_base_schemakind)")
    from vpes import top_shapes
    vb = prog.bodies.get("schema::union::UnionSchema::value_to_base_schemakind")
    sb = prog.bodies.get("schema::union::schema_to_base_schemakind")
    if vb is None or sb is None:
        rep.anchor_error("C07.R7", "value_to_base_schemakind / schema_to_base_schemakind")
    else:
        wv = T["wire"]

        def kinds_of(body, root_adt_is_value):
            vp_ = wv.vpes(body)
            out = {}
            for s_, reg in top_shapes(vp_, 1):
                ks = set()
                for x in reg:
                    for st in body.blocks[x]["stmts"]:
                        if st["s"] != "assign":
                            continue
                        rv = st["rv"]
                        if rv["r"] == "agg" and rv.get("adt") == "schema::SchemaKind" and rv.get("variant"):
                            ks.add(rv["variant"])
                            continue
                        ops_ = [rv["o"]] if rv["r"] == "use" else (rv.get("ops", []) if rv["r"] == "agg" else [])
                        for o in ops_:
                            if isinstance(o, dict) and o.get("k") in ("copy", "move") and not o["pl"]["p"] and (body.local_ty(o["pl"]["l"]) or "") == "schema::SchemaKind" and body.local_name(o["pl"]["l"]):
                                ks.add("<itself>")
                out[vp_.shape_name(s_, 1)] = ks
            return out
        vk = kinds_of(vb, True)
        sk = kinds_of(sb, False)
        n7 = 0
        for V, ks in sorted(vk.items()):
            shapes = [S for S in dec if V in (dec[S].get("values_ok") or [])]
            if not shapes:
                continue
            allowed_k = set()
            for S in shapes:
                for k_ in sk.get(S, sk.get(S.split("(")[0], set())):
                    allowed_k.add(S.split("(")[0] if k_ == "<itself>" else k_)
            # a map value may stand for a record (JSON objects become maps): the library documents that extra lookup
            if V == "Map":
                allowed_k.add("Record")
            mine = set(V if k_ == "<itself>" else k_ for k_ in ks)
            n7 += 1
            rep.ob("C07.R7", "a bare Value::%s is looked up under %s, the kind its branch is registered under" % (V, "/".join(sorted(mine)) or "?"), bool(mine) and mine <= allowed_k,
                   "a bare Value::%s is matched to the union branch of kind %s, branches that represent it (%s) are registered under %s: validation accepts the value for the wrong branch and the writers emit that branch's index with this value's bytes" % (V, sorted(mine), shapes, sorted(allowed_k)), vb.loc())
        rep.floor("C07.R7", "value variants compared", n7, 25)
    rep.floor("C07", "obligations", len(rep.obligations), 100)
    rep.not_decided = ["that the bytes decode to the value's canonical representation for concrete values (union branch chosen, widened number)", "(Map, Record) - see known findings"]
    return common.finish(rep, level="other",
                         explanation="validator acceptance relation, encoder and decoder wire tables (variant-partitioned path summaries) cross-checked pair by pair; dominance / edge-region rules on the validating writers",
                         assumptions=["INT and LONG varints of the same number are the same bytes", "find_schema_with_known_schemata returns a branch that validation would also pick"], evidence_dir=evidence_dir)
