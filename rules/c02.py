"""C02 — binary encoding follows the Avro specification.

Structural clauses decided (oracle: rules/tables/spec_wire.toml, transcribed from the specification):
 R1 per-shape wire tokens  for every schema shape S (31 today: 28 Schema variants, Uuid x3, Decimal x2) the ordered wire
                   tokens of decode_internal(S) equal the table's `dec` row, the tokens of encode_internal(V(S), S) equal
                   its `enc` row (V(S) = the Value variant that represents S), and the decoder builds V(S) on its Ok
                   exits. Tokens are resolved callees: zig-zag class (INT/LONG), raw byte moves with static length,
                   byte order of float / u32 / big-integer conversions (LE vs BE is the callee's name resolved by the
                   compiler), uuid text vs binary form, block-header reader, recursion, loop depth.
 R2 block headers  both block-header readers (decode::decode_seq_len, BlockDeserializer::read_block_header) read a
                   second long exactly on the "count < 0" edge of a comparison of the first long with 0, make the count
                   positive with a checked/absolute operation, and return "end" for 0; array and map arms call the
                   header reader inside a loop and decode items in a nested loop (multi-block acceptance: R1 rows).
 R3 block writers  BufferedBlockSerializer::write_block writes zig_i64(0 - items), zig_i64(buffer.len()), buffer - in
                   that dominance order - and `end` flushes a pending block before the single 0 byte;
                   DirectBlockSerializer writes zig_i64(len) only when len != 0 and `end` writes the 0 byte.
 R4 big-decimal / duration framing  serialize_big_decimal = length-prefixed(unscaled BE2C bytes length-prefixed, then
                   long scale) mirrored by deserialize_big_decimal; Duration <-> [u8;12] uses three U32LE in the order
                   months, days, millis on both sides.
Not decided: varint / zig-zag arithmetic, numeric values, interop with concrete foreign bytes.
"""
import facts as factsmod
from mir import Program, callee_names, op_local, calls_named, edge_only_region
import common
import shape
import wiretab


def get(prog, rep, rule, path):
    try:
        return prog.body(path)
    except KeyError as e:
        rep.anchor_error(rule, str(e))
        return None


def header_reader(prog, rep, path, short):
    b = get(prog, rep, "C02.R2", path)
    if b is None:
        return
    rd = calls_named(b, "util::zag_i64")
    if not rep.ob("C02.R2", "%s reads two longs" % short, len(rd) == 2, "found %d zag_i64 calls" % len(rd), b.loc()):
        return
    if b.dominates(rd[1][0], rd[0][0]):
        rd.reverse()
    first, second = rd
    rep.ob("C02.R2", "%s: the byte-size long is read after the count and only conditionally" % short,
           b.dominates(first[0], second[0]) and not b.postdominates(second[0], first[0]), "", b.loc(second[0]))
    # value of the first read
    vals = set()
    cfs = set()
    for bi, t in b.calls():
        if callee_names(t["func"])[0] == "std::ops::Try::branch" and op_local(t["args"][0]) == first[1]["dest"]["l"]:
            cf = t["dest"]["l"]
            cfs.add(cf)
            for _, _, st in b.stmts():
                if st["s"] == "assign" and st["rv"]["r"] == "use" and st["rv"]["o"].get("k") in ("copy", "move"):
                    pl = st["rv"]["o"]["pl"]
                    if pl["l"] == cf and any(isinstance(e, dict) and e.get("d") == "Continue" for e in pl["p"]):
                        vals.add(st["pl"]["l"])
    vals = set().union(*[shape.carriers_of(b, v) for v in vals]) if vals else set()

    def derives(op):
        if op.get("k") not in ("copy", "move"):
            return False
        r = b.resolve_operand(op)
        return bool(r and (r[0] in vals or (r[0] in cfs and "as Continue" in r[1])))
    # the guard of the second read: `x < 0` or `x.cmp(&0) == Less`
    guard_ok = False
    why = "no comparison of the count with 0 guards the second read"
    for bi, si, st in b.stmts():
        if st["s"] == "assign" and st["rv"]["r"] == "bin" and st["rv"]["op"] in ("Lt", "Gt", "Le", "Ge"):
            a, c = st["rv"]["a"], st["rv"]["b"]
            op = st["rv"]["op"]
            neg_edge = None
            if derives(a) and c.get("int") == 0 and op in ("Lt", "Ge"):
                neg_edge = "true" if op == "Lt" else "false"
            if derives(c) and a.get("int") == 0 and op in ("Gt", "Le"):
                neg_edge = "true" if op == "Gt" else "false"
            if neg_edge:
                sw = shape.bool_switch(b, st["pl"]["l"])
                if sw:
                    tgt = sw[2] if neg_edge == "true" else sw[1]
                    reg = edge_only_region(b, sw[0], tgt)
                    if reg is not None and second[0] in reg:
                        guard_ok = True
    for bi, t in b.calls():
        nm = callee_names(t["func"])
        if nm and nm[0] == "std::cmp::Ord::cmp" and derives(t["args"][0]) and b.op_const(t["args"][1]).get("ints_seq", [b.op_const(t["args"][1]).get("int")]) in ([0], 0):
            d = t["dest"]["l"]
            for bj, sj, st in b.stmts():
                if st["s"] == "assign" and st["rv"]["r"] == "discr" and st["rv"]["pl"]["l"] == d:
                    dl = st["pl"]["l"]
                    for sbi in range(b.n):
                        tt = b.blocks[sbi]["term"]
                        if tt["t"] == "switch" and op_local(tt["discr"]) == dl:
                            tg = dict(tt["targets"])
                            less = tg.get(-1, tg.get(255, tg.get(18446744073709551615)))
                            if less is None:
                                # Less may be the `otherwise` edge when Equal/Greater are listed
                                if 0 in tg and 1 in tg:
                                    less = tt["otherwise"]
                            reg = edge_only_region(b, sbi, less) if less is not None else None
                            if reg is not None and second[0] in reg:
                                guard_ok = True
                            else:
                                why = "the second long is not read on the Less edge"
    rep.ob("C02.R2", "%s: the second long is read exactly when the count is negative" % short, guard_ok, why, b.loc(second[0]))
    fix = [nm for bi, t in b.calls() for nm in callee_names(t["func"])[:1] if nm.split("::")[-1] in ("checked_neg", "unsigned_abs", "checked_abs", "abs", "wrapping_neg", "wrapping_abs")]
    negs = [st for _, _, st in b.stmts() if st["s"] == "assign" and st["rv"]["r"] == "un" and st["rv"]["op"] == "Neg"]
    rep.ob("C02.R2", "%s: a negative count is made positive with a non-panicking operation" % short,
           any(f.split("::")[-1] in ("checked_neg", "unsigned_abs", "checked_abs") for f in fix) and not negs,
           "negation ops: %s, plain Neg: %d (i64::MIN must not panic or stay negative)" % (fix, len(negs)), b.loc())
    # zero => end
    end_ok = False
    for bi, si, st in b.stmts():
        if st["s"] == "assign" and st["rv"]["r"] == "bin" and st["rv"]["op"] in ("Eq", "Ne") and ((derives(st["rv"]["a"]) and st["rv"]["b"].get("int") == 0) or (derives(st["rv"]["b"]) and st["rv"]["a"].get("int") == 0)):
            end_ok = True
    for bi, t in b.calls():
        if callee_names(t["func"])[0] == "std::cmp::Ord::cmp" and derives(t["args"][0]):
            end_ok = True
    rep.ob("C02.R2", "%s: a count of 0 is recognised as the end of the array/map" % short, end_ok, "", b.loc())


def run(rep, tier="quick", replay=None, evidence_dir=None, collect_only=False):
    prog = Program(factsmod.extract())
    rep.rule("C02.R1", "per-shape wire tokens of decoder and encoder equal the specification table")
    rep.rule("C02.R2", "block-header readers accept negative counts followed by a byte size, and multi-block arrays/maps")
    rep.rule("C02.R3", "serde block writers emit spec-legal blocks (negative count + size for buffered blocks, 0 terminator)")
    rep.rule("C02.R4", "big-decimal and duration framing mirror each other")
    T = wiretab.tables(prog)
    sp = wiretab.spec()
    dec, enc = T["dec"], T["enc"]
    rep.analysed["decoder shapes"] = len(dec)
    rep.analysed["encoder (value, shape) pairs"] = len(enc)
    rep.floor("C02.R1", "schema shapes seen by the decoder", len(dec), 31)
    for s in sorted(set(dec) | set(sp)):
        if s not in sp:
            rep.ob("C02.R1", "shape %s has a row in the specification table" % s, False, "a new schema shape is decoded as %s; add its row to rules/tables/spec_wire.toml after checking the specification" % dec[s]["seq"], "")
            continue
        if s not in dec:
            rep.ob("C02.R1", "shape %s is decoded" % s, False, "decode_internal has no arm for this shape (shape names changed?)", "")
            continue
        d = dec[s]
        loc = d["tokens"][0].loc if d["tokens"] else ""
        want = wiretab.alts(sp[s]["dec"])
        rep.ob("C02.R1", "decode %s reads %s" % (s, " | ".join(" ".join(x) or "nothing" for x in want)), d["paths"] == want,
               "decoder's success paths read %s" % d["paths"], loc)
        v = sp[s]["value"]
        if not v:
            continue
        allowed = set([v] + sp[s].get("via", []))
        rep.ob("C02.R1", "decode %s yields Value::%s" % (s, v), v in d["values_ok"] and set(d["values_ok"]) <= allowed,
               "decoder constructs %s on its success paths" % d["values_ok"], loc)
        es = wiretab.enc_for(T, v, s)
        if not es:
            rep.ob("C02.R1", "encode Value::%s as %s" % (v, s), False, "no encoder entry", "")
        for name, e in es:
            eloc = e["tokens"][0].loc if e["tokens"] else ""
            want = wiretab.alts(sp[s]["enc"])
            rep.ob("C02.R1", "encode Value::%s as %s writes %s" % (v, s, " | ".join(" ".join(x) or "nothing" for x in want)), e["can_ok"] and e["paths"] == want,
                   "encoder's success paths write %s" % (e["paths"] if e["can_ok"] else "nothing: no success path"), eloc)
    # ---------------- R2
    header_reader(prog, rep, "decode::decode_seq_len", "decode_seq_len")
    header_reader(prog, rep, "serde::deser_schema::block::BlockDeserializer::<'s, 'r, R, S>::read_block_header", "BlockDeserializer::read_block_header")
    callers = set()
    for b in prog.by_crate["apache_avro"]:
        if calls_named(b, "serde::deser_schema::block::BlockDeserializer::<'s, 'r, R, S>::read_block_header"):
            callers.add(b.path)
    rep.floor("C02.R2", "callers of BlockDeserializer::read_block_header (2 constructors + 3 element/entry readers)", len(callers), 5)
    for c in sorted(callers):
        b = prog.bodies[c]
        if "next_" in c:
            # the header is re-read when the block is exhausted: the call sits on an `== 0` edge of the counter
            hc = calls_named(b, "serde::deser_schema::block::BlockDeserializer::<'s, 'r, R, S>::read_block_header")
            ok = False
            for bi, si, st in b.stmts():
                if st["s"] == "assign" and st["rv"]["r"] == "bin" and st["rv"]["op"] in ("Eq", "Ne") and (st["rv"]["b"].get("int") == 0 or st["rv"]["a"].get("int") == 0):
                    sw = shape.bool_switch(b, st["pl"]["l"])
                    if sw:
                        tgt = sw[2] if st["rv"]["op"] == "Eq" else sw[1]
                        reg = edge_only_region(b, sw[0], tgt)
                        if reg is not None and any(h[0] in reg for h in hc):
                            ok = True
            rep.ob("C02.R2", "%s reads the next block header when the current block is exhausted" % c.split(">::")[-1], ok,
                   "an array or map split over several blocks would be cut after its first block", b.loc())
    # the per-block item loop of the generic decoder is bounded by the block's count alone: its exit condition must not
    # depend on the length of the collection it fills (that length includes the items of earlier blocks)
    db = prog.body("decode::decode_internal")
    vp = T["wire"].vpes(db)
    droot = [r for r, a in vp.roots.items() if a == "schema::Schema"][0]
    for shp in ("Array", "Map"):
        reg = vp.region({(droot, ()): shp})
        rec = [bi for bi, t in db.calls() if bi in reg and callee_names(t["func"])[-1] == "decode::decode_internal" and sum(1 for h, lb in db.loops() if bi in lb) >= 2]
        ok = bool(rec)
        why = "no nested item loop found"
        for rbi in rec:
            lp = shape.loop_of(db, rbi)
            if not lp:
                ok = False
                continue
            h, body_ = lp
            grown = set()
            for bi, t in db.calls():
                nm = callee_names(t["func"])
                if bi in body_ and nm and nm[0].split("::")[-1] in ("push", "insert", "push_back", "extend") and t["args"] and t["args"][0].get("k") in ("copy", "move"):
                    grown.add(db.pldesc(t["args"][0]["pl"]))
            for sbi in body_:
                tt = db.blocks[sbi]["term"]
                if tt["t"] != "switch" or all(x in body_ for x in db.succ[sbi]):
                    continue
                # backward slice of the exit condition
                work = [tt["discr"]]
                seen_l = set()
                steps = 0
                while work and steps < 200:
                    steps += 1
                    o = work.pop()
                    if o.get("k") not in ("copy", "move"):
                        continue
                    l0 = o["pl"]["l"]
                    if l0 in seen_l or 1 <= l0 <= db.argc:
                        continue
                    seen_l.add(l0)
                    for (dbi, si, kind, payload) in db.defs.get(l0, []):
                        if dbi not in reg:
                            continue
                        if kind == "call":
                            nm = callee_names(payload["func"])
                            if nm and nm[0].endswith("::len") and payload["args"] and payload["args"][0].get("k") in ("copy", "move") and db.pldesc(payload["args"][0]["pl"]) in grown:
                                ok = False
                                why = "the loop's exit test at %s reads %s.len(), the collection the loop fills" % (db.loc(sbi), db.pldesc(payload["args"][0]["pl"]))
                            work.extend(payload["args"])
                        elif kind == "assign":
                            rv = payload
                            for key in ("o", "a", "b"):
                                if isinstance(rv.get(key), dict):
                                    work.append(rv[key])
                            for o_ in rv.get("ops", []) or []:
                                if isinstance(o_, dict):
                                    work.append(o_)
                            if rv.get("pl"):
                                work.append({"k": "copy", "pl": rv["pl"]})
        rep.ob("C02.R2", "decode %s: the item loop of a block is bounded by that block's count, not by the total collected so far" % shp, ok, why, db.loc())

    # ---------------- R3
    W = "serde::ser_schema::block::BufferedBlockSerializer::<'s, 'w, W, S>::"
    wb = get(prog, rep, "C02.R3", W + "write_block")
    if wb is not None:
        z = calls_named(wb, "util::zig_i64")
        wa = calls_named(wb, "std::io::Write::write_all")
        ok = len(z) == 2 and len(wa) == 1
        if rep.ob("C02.R3", "write_block: two longs and one payload write", ok, "zig_i64=%d write_all=%d" % (len(z), len(wa)), wb.loc()):
            if wb.dominates(z[1][0], z[0][0]):
                z.reverse()
            rep.ob("C02.R3", "write_block: order count, byte size, payload", shape.dominance_chain(wb, [z[0][0], z[1][0], wa[0][0]]), "", wb.loc())
            # first operand = 0 - items_in_buffer (Sub with const 0 lhs) or Neg
            a = z[0][1]["args"][0]
            sd = wb.single_def(op_local(a)) if op_local(a) is not None else None
            negcount = False
            if sd and sd[2] == "assign":
                rv = sd[3]
                if rv["r"] == "bin" and rv["op"] in ("Sub", "SubWithOverflow", "SubUnchecked") and rv["a"].get("int") == 0 and "items_in_buffer" in wb.opdesc(rv["b"]):
                    negcount = True
                if rv["r"] == "un" and rv["op"] == "Neg" and "items_in_buffer" in wb.opdesc(rv["a"]):
                    negcount = True
                if rv["r"] == "use":
                    # (0 - x) with overflow check: tuple field .0 of a checked op
                    r = wb.resolve_operand(rv["o"]) if rv["o"].get("k") in ("copy", "move") else None
                    if r:
                        sd2 = wb.single_def(r[0])
                        if sd2 and sd2[2] == "assign" and sd2[3]["r"] == "bin" and sd2[3]["op"].startswith("Sub") and sd2[3]["a"].get("int") == 0 and "items_in_buffer" in wb.opdesc(sd2[3]["b"]):
                            negcount = True
            rep.ob("C02.R3", "write_block: the count is written negated (so that the byte size may follow)", negcount, "first long is %s" % wb.opdesc(a), wb.loc(z[0][0]))
            b2 = z[1][1]["args"][0]
            cur, lenok = b2, False
            for _ in range(4):
                cr = wb.call_result_of(cur)
                if cr and callee_names(cr[1]["func"])[0].endswith("::len") and "self.buffer" in wb.opdesc(cr[1]["args"][0]):
                    lenok = True
                    break
                l = op_local(cur)
                sd = wb.single_def(l) if l is not None else None
                if sd and sd[2] == "assign" and sd[3]["r"] == "cast":
                    cur = sd[3]["o"]
                    continue
                break
            rep.ob("C02.R3", "write_block: the second long is the byte length of the buffered items", lenok, "", wb.loc(z[1][0]))
            rep.ob("C02.R3", "write_block: the payload is the buffer", "self.buffer" in wb.opdesc(wa[0][1]["args"][1]), "", wb.loc(wa[0][0]))
    en = get(prog, rep, "C02.R3", W + "end")
    if en is not None:
        wbk = calls_named(en, W + "write_block")
        wa = calls_named(en, "std::io::Write::write_all")
        k = T["wire"].buffer_kind(en, wa[0][1]["args"][1]) if len(wa) == 1 else (None, None)
        rep.ob("C02.R3", "BufferedBlockSerializer::end flushes the pending block, then writes the single 0 byte",
               len(wbk) == 1 and len(wa) == 1 and not en.dominates(wbk[0][0], wa[0][0]) is False or (len(wbk) == 1 and len(wa) == 1 and en.reachable(wbk[0][0]) >= {wa[0][0]}) and k == ("1", [0]),
               "terminator buffer %s" % (k,), en.loc())
        # pending block is flushed under items_in_buffer > 0 (not under buffer.len() > 0: zero-width items)
        cond_ok = False
        for bi, si, st in en.stmts():
            if st["s"] == "assign" and st["rv"]["r"] == "bin" and st["rv"]["op"] in ("Gt", "Ne", "Lt", "Ge") and ("items_in_buffer" in en.opdesc(st["rv"]["a"]) or "items_in_buffer" in en.opdesc(st["rv"]["b"])):
                cond_ok = True
        rep.ob("C02.R3", "BufferedBlockSerializer::end decides on the number of buffered items whether a block is pending", cond_ok,
               "items that encode to zero bytes (null, empty records) must still be counted", en.loc())
    # a block is written only on an item boundary: its header counts complete items and its byte size covers exactly them
    fam = dict((k, b) for k, b in prog.bodies.items() if "serde::ser_schema::block::BufferedBlockSerializer" in k and b.kind != "Closure")

    def incs(b):
        return [bi for bi, si, st in b.stmts() if st["s"] == "assign" and st["pl"]["p"] and b.pldesc(st["pl"]).endswith("self.items_in_buffer")
                and not (st["rv"]["r"] == "use" and st["rv"]["o"].get("k") == "const")]
    fbc = {}   # function -> may write a block before it has counted an item itself

    def flush_before_count(k, depth=0):
        if k in fbc:
            return fbc[k]
        fbc[k] = False
        b = fam[k]
        res = False
        mine = incs(b)
        for bi, t in b.calls():
            tg = [n for n in callee_names(t["func"]) if n in fam]
            if not tg:
                continue
            callee = tg[-1]
            if callee.endswith("::write_block") or (depth < 4 and flush_before_count(callee, depth + 1)):
                if not any(b.dominates(i, bi) for i in mine):
                    res = True
        fbc[k] = res
        return res
    items = [k for k in fam if k.endswith(("::serialize_element", "::serialize_key", "::serialize_value", "::serialize_entry", "::serialize_field"))]
    for k in sorted(items):
        b = fam[k]
        rep.ob("C02.R3", "%s: a block is flushed only after the item it completes was counted" % b.path.split(" as ")[-1].replace(">", ""), not flush_before_count(k),
               "write_block is reachable before items_in_buffer is incremented: the block header's count and byte size no longer describe whole items (a map block may end between a key and its value)", b.loc())
    keyf = [k for k in items if k.endswith("::serialize_key")]
    for k in keyf:
        def counts(k2, seen=()):
            b2 = fam[k2]
            if incs(b2):
                return True
            return any(counts(n, seen + (k2,)) for bi, t in b2.calls() for n in callee_names(t["func"]) if n in fam and n not in seen and n != k2)
        rep.ob("C02.R3", "serialize_key does not count an item (a map entry is counted once, with its value)", not counts(k), "", fam[k].loc())
    rep.floor("C02.R3", "item methods of BufferedBlockSerializer", len(items), 3)
    D = "serde::ser_schema::block::DirectBlockSerializer::<'s, 'w, W, S>::"
    dn = get(prog, rep, "C02.R3", D + "new")
    if dn is not None:
        z = calls_named(dn, "util::zig_i64")
        ok = len(z) == 1 and "len" in dn.opdesc(z[0][1]["args"][0]) or (len(z) == 1 and dn.single_def(op_local(z[0][1]["args"][0])) is not None)
        rep.ob("C02.R3", "DirectBlockSerializer::new writes the item count as one long", len(z) == 1 and not dn.in_loop(z[0][0]), "", dn.loc())
    de = get(prog, rep, "C02.R3", D + "end")
    if de is not None:
        wa = calls_named(de, "std::io::Write::write_all")
        k = T["wire"].buffer_kind(de, wa[0][1]["args"][1]) if len(wa) == 1 else (None, None)
        rep.ob("C02.R3", "DirectBlockSerializer::end writes the single 0 byte", k == ("1", [0]), "terminator buffer %s" % (k,), de.loc())
    # ---------------- R4
    w = T["wire"]
    w2 = wiretab.Wire(prog, extra_leaf={})
    w2.leaf.pop("bigdecimal::serialize_big_decimal", None)
    w2.leaf.pop("bigdecimal::deserialize_big_decimal", None)
    ser = wiretab.paths_of(w2.summary("bigdecimal::serialize_big_decimal", {})) if "bigdecimal::serialize_big_decimal" in prog.bodies else None
    des = wiretab.paths_of(w2.summary("bigdecimal::deserialize_big_decimal", {})) if "bigdecimal::deserialize_big_decimal" in prog.bodies else None
    rep.ob("C02.R4", "serialize_big_decimal = BE2C unscaled bytes, length-prefixed, then the scale, all length-prefixed once more",
           ser == [["BE2C", "LONG", "RAW:VAR", "LONG", "LONG", "RAW:VAR"]], "token paths %s" % ser, "avro/src/bigdecimal.rs")
    rep.ob("C02.R4", "deserialize_big_decimal reads length, bytes, scale and converts BE2C",
           des == [["LONG", "RAW:VAR", "LONG", "BE2C"]], "token paths %s" % des, "avro/src/bigdecimal.rs")
    # duration field layout: months at bytes 0..4, days at 4..8, millis at 8..12 on both sides
    want = {"months": [0, 1, 2, 3], "days": [4, 5, 6, 7], "millis": [8, 9, 10, 11]}
    tb = get(prog, rep, "C02.R4", "duration::<impl std::convert::From<&duration::Duration> for [u8; 12]>::from")
    if tb is not None:
        got = {}
        for bi, t in calls_named(tb, "core::slice::<impl [T]>::copy_from_slice"):
            dst = tb.call_result_of(t["args"][0])
            rng = None
            if dst and callee_names(dst[1]["func"])[0] in ("std::ops::IndexMut::index_mut", "std::ops::Index::index"):
                sd = tb.single_def(op_local(dst[1]["args"][1])) if op_local(dst[1]["args"][1]) is not None else None
                if sd and sd[2] == "assign" and sd[3]["r"] == "agg" and sd[3].get("adt") == "std::ops::Range":
                    ops = sd[3]["ops"]
                    if all("int" in o for o in ops):
                        rng = list(range(ops[0]["int"], ops[1]["int"]))
            src = tb.call_result_of(t["args"][1])
            fld = None
            if src and src[1]["args"]:
                d = tb.opdesc(src[1]["args"][0])
                fld = d.split(".")[-1]
            if fld:
                got[fld] = rng
        rep.ob("C02.R4", "Duration -> bytes puts months, days, milliseconds at bytes 0..4, 4..8, 8..12", got == want, "layout found: %s" % got, tb.loc())
    fb = get(prog, rep, "C02.R4", "<duration::Duration as std::convert::From<&[u8; 12]>>::from")
    if fb is not None:
        got = {}
        aggs = [st for _, _, st in fb.stmts() if st["s"] == "assign" and st["rv"]["r"] == "agg" and st["rv"].get("adt") == "duration::Duration"]
        if len(aggs) == 1:
            for name, o in zip(aggs[0]["rv"].get("fields", []), aggs[0]["rv"]["ops"]):
                cr = fb.call_result_of(o)
                idx = None
                if cr and cr[1]["args"]:
                    sd = fb.single_def(op_local(cr[1]["args"][0])) if op_local(cr[1]["args"][0]) is not None else None
                    if sd and sd[2] == "assign" and sd[3]["r"] == "agg" and sd[3].get("ak") == "array":
                        idx = []
                        for e in sd[3]["ops"]:
                            sde = fb.single_def(op_local(e)) if op_local(e) is not None else None
                            ix = None
                            if sde and sde[2] == "assign" and sde[3]["r"] == "use" and sde[3]["o"].get("k") in ("copy", "move"):
                                for pr in sde[3]["o"]["pl"]["p"]:
                                    if isinstance(pr, dict) and "ix" in pr:
                                        sdi = fb.single_def(pr["ix"])
                                        if sdi and sdi[2] == "assign" and sdi[3]["r"] == "use" and "int" in sdi[3]["o"]:
                                            ix = sdi[3]["o"]["int"]
                                    if isinstance(pr, dict) and "ci" in pr:
                                        ix = pr["ci"]
                            idx.append(ix)
                got[name] = idx
        rep.ob("C02.R4", "bytes -> Duration takes months, days, milliseconds from bytes 0..4, 4..8, 8..12", got == want, "layout found: %s" % got, fb.loc())
    for path, what in (("duration::<impl std::convert::From<duration::Duration> for [u8; 12]>::from", "Duration -> bytes (by value)"),
                       ("<duration::Duration as std::convert::From<[u8; 12]>>::from", "bytes -> Duration (by value)")):
        b = get(prog, rep, "C02.R4", path)
        if b is not None:
            c = [t for bi, t in b.calls() if callee_names(t["func"])[0] == "std::convert::Into::into"]
            rep.ob("C02.R4", "%s delegates to the by-reference conversion" % what, len(c) == 1 and c[0]["dest"]["l"] == 0 and len(list(b.calls())) == 1, "", b.loc())

    # ---------------- R5 union: index and payload belong to the same branch (serde UnionSerializer)
    rep.rule("C02.R5", "serde UnionSerializer: the branch index written and the wire form of the payload that follows are those of the same branch kind")
    import unionpair
    up, nfun = unionpair.scan(prog)
    for x in up:
        rep.ob("C02.R5", "%s: index of the %s branch is followed by %s" % (x["fn"].split(" as ")[-1].replace(">", ""), x["tag"], x["kind"]), x["ok"],
               "a union value is the branch index followed by the value encoded with *that* branch's schema; %s is written as %s on a path where the index of the %s branch was written" % (x.get("want"), x["kind"], x["tag"]), x["loc"])
    rep.analysed["UnionSerializer functions explored (tagflow)"] = nfun
    rep.floor("C02.R5", "index/payload pairings observed in UnionSerializer", len(up), 12)

    # ---------------- R6 the encoders hand whole buffers to the output (C13.R1 instances in the encoders)
    rep.rule("C02.R6", "the datum encoders write every buffer completely: no partial Write::write whose count is not inspected (C13.R1 instances in encode.rs, util.rs and the serde serializers)")
    import c13
    sub13 = common.Report("C13", tier, 0)
    c13.run(sub13, tier=tier, collect_only=True)
    n6 = 0
    for o in sub13.obligations:
        if o["rule"] == "C13.R1" and (o["instance"].startswith(("encode::", "util::", "serde::ser_schema", "<serde::ser_schema", "bigdecimal::")) or "ser_schema" in o["loc"] or "encode.rs" in o["loc"]):
            n6 += 1
            rep.ob("C02.R6", "[C13.R1] " + o["instance"], o["ok"], "the bytes of a value are cut short while the length prefix / index was written in full: the output is not the specified encoding; " + o["detail"], o["loc"])
    rep.analysed["partial-write obligations imported for the encoders"] = n6
    # zero instances is the expected state (every sink write is a write_all): make sure the scan sees the sink writes at all
    rep.floor("C02.R6", "write_all / flush sites on caller sinks seen by the scan", int(sub13.analysed.get("write_all/flush sites on non-memory sinks", 0)), 16)

    if collect_only:
        return rep
    rep.floor("C02", "obligations", len(rep.obligations), 110)
    rep.not_decided = ["the varint and zig-zag arithmetic itself", "unscaled-integer values and sign extension widths", "interop with actual foreign bytes (needs an independent implementation at run time)"]
    return common.finish(rep, level="other",
                         explanation="variant-partitioned path summaries of decode_internal / encode_internal reduced to a token alphabet of resolved codec primitives and compared with the hand-transcribed specification table; edge-region checks on the block-header readers and block writers",
                         assumptions=["rules/tables/spec_wire.toml transcribes the specification correctly", "util::zig_*/zag_* implement zig-zag varints (arithmetic not decided)",
                                      "f32/f64/u32::to_le_bytes, BigInt::to_signed_bytes_be and uuid's text form behave as documented"], evidence_dir=evidence_dir)
