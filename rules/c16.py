"""C16 — serde and generic-value paths produce and accept the same bytes.

Structural clauses decided:
 R1 method tables   for every scalar serde data-model method m (bool, i8..i128, u8..u128, f32, f64, char, str, bytes, unit,
                    unit_variant) and every schema shape S:
                    (a) if SchemaAwareSerializer::serialize_m has a success path under S, the stream tokens it writes are the
                        ones decode_internal(S) reads (the generic decoder accepts the bytes as one datum of S);
                    (b) likewise for SchemaAwareDeserializer::deserialize_m and the tokens it reads;
                    (c) serialize_m and deserialize_m accept the same shapes (tables/c16_asym.toml lists the confirmed exceptions).
 R2 unions          under a union schema every serializer method writes the branch index (one varint) first, and the
                    deserializer reads one varint before it recurses.
 R3 byte counts     C13.R2 (no dropped byte count) holds for the serde writers (imported instances).
 R4 blocks          the block writers/readers follow C02.R2/R3 (imported instances).
 R5 record order    RecordSerializer::serialize_next_field writes a field directly only when it is the next schema position,
                    caches later fields, rejects earlier ones, and after an in-order field flushes *all* consecutive cached
                    fields (a loop); RecordSerializer::end fills defaults until every position is written (a loop).
Not decided: equality of Rust values, schema-less to_value / from_value equivalence.
"""
import os
import tomllib
import facts as factsmod
from mir import Program, callee_names, op_local, calls_named
import common
import shape
import wiretab
from vpes import key_shapes

SER = "<serde::ser_schema::SchemaAwareSerializer<'s, 'w, W, S> as serde::Serializer>::"
DES = "<serde::deser_schema::SchemaAwareDeserializer<'s, 'r, R, S> as serde::Deserializer<'de>>::"
SCALAR = ["bool", "i8", "i16", "i32", "i64", "i128", "u8", "u16", "u32", "u64", "u128", "f32", "f64", "char", "str", "bytes", "unit"]
KEY = (1, (".schema",))
import re
BYTEORDER = re.compile(r"^[FUI]\d+(LE|BE|NE)$")
ORDER = {}


def shape_label(s):
    top = s[KEY]
    nested = [v for k, v in sorted(s.items()) if k != KEY]
    return top + ("(" + ",".join(nested) + ")" if nested else "")


def method_table(prog, w, key):
    """shape label -> sorted unique stream-token paths of the method's success paths"""
    b = prog.bodies[key]
    vp = w.vpes(b)
    sigmas = []
    if KEY in vp.keys():
        sigmas = [s for s, reg in key_shapes(vp, KEY)]
    else:
        # the method hands `self` to a helper that discriminates the schema: take the shapes from there
        for bi, t in b.calls():
            cal = w.local_callee(t)
            if cal is None or not t["args"]:
                continue
            r = b.resolve_operand(t["args"][0]) if t["args"][0].get("k") in ("copy", "move") else None
            if r and r[0] == 1 and not [p for p in r[1] if p not in ("*", "&")]:
                cvp = w.vpes(cal)
                if KEY in cvp.keys():
                    sigmas = [s for s, reg in key_shapes(cvp, KEY)]
                    break
    out = {}
    for s in sigmas:
        sm = w.summary(key, s)
        if sm["exits"]["can_ok"] and sm["paths"]:
            out[shape_label(s)] = sorted(set(tuple(wiretab.stream(list(p))) for p in sm["paths"]))
            ORDER[(key, shape_label(s))] = sorted(set(x.rstrip("*") for p in sm["paths"] for x in p if BYTEORDER.match(x.rstrip("*"))))
    return out, bool(sigmas)


def widen(p):
    return ["LONG" + x[3:] if x.startswith("INT") else x for x in p]


def run(rep, tier="quick", replay=None, evidence_dir=None, collect_only=False):
    prog = Program(factsmod.extract())
    rep.rule("C16.R1", "per serde method and schema shape: serializer writes / deserializer reads what the generic decoder reads; both accept the same shapes")
    rep.rule("C16.R2", "union: branch index first")
    rep.rule("C16.R3", "serde writers report every byte they write (C13.R2 instances)")
    rep.rule("C16.R4", "block framing of the serde writers/readers (C02.R2/R3 instances)")
    rep.rule("C16.R5", "record fields are written in schema order whatever order serde delivers them in")
    T = wiretab.tables(prog)
    w = T["wire"]
    dec = T["dec"]
    with open(os.path.join(common.VERIF, "rules", "tables", "c16_asym.toml"), "rb") as fh:
        asym = tomllib.load(fh).get("asym", [])
    allowed = {}
    for a in asym:
        for s in a["shapes"]:
            allowed[(a["method"], s)] = a["side"]
    tabs = {}
    n_cells = 0
    for side, pre, names in (("serializer", SER, dict((m, ["serialize_" + m]) for m in SCALAR + ["unit_variant"])),
                             ("deserializer", DES, dict((m, ["deserialize_" + m] + (["deserialize_string"] if m == "str" else []) + (["deserialize_byte_buf"] if m == "bytes" else [])) for m in SCALAR))):
        for m, fns in names.items():
            for fn in fns:
                key = pre + fn
                if key not in prog.bodies:
                    rep.anchor_error("C16.R1", key)
                    continue
                tab, found = method_table(prog, w, key)
                if not rep.ob("C16.R1", "%s::%s discriminates the schema" % (side, fn), found and bool(tab), "no schema switch reachable from the method", prog.bodies[key].loc()):
                    continue
                tabs[(side, m, fn)] = tab
                for lab, paths in sorted(tab.items()):
                    n_cells += 1
                    loc = prog.bodies[key].loc()
                    if lab == "Union":
                        ok = all(len(p) >= 1 and p[0] in ("INT", "LONG") for p in paths)
                        rep.ob("C16.R2", "%s::%s under a union handles the branch index first" % (side, fn), ok, "paths %s" % [list(p) for p in paths], loc)
                        continue
                    cands = wiretab.refine(lab, dec.keys())
                    if not cands:
                        rep.ob("C16.R1", "%s::%s accepts shape %s known to the generic decoder" % (side, fn, lab), False, "unknown shape", loc)
                        continue
                    good = True
                    why = ""
                    for c in cands:
                        dps = [wiretab.stream(p) for p in dec[c]["paths"]]
                        for p in paths:
                            if not any(wiretab.streams_agree(widen(list(p)), widen(dp)) for dp in dps):
                                good = False
                                why = "%s %s %s under %s, the generic decoder reads %s for %s" % (side, "writes" if side == "serializer" else "reads", list(p), lab, dps, c)
                    verb = "writes what" if side == "serializer" else "reads what"
                    rep.ob("C16.R1", "%s::%s under %s %s the generic decoder reads" % (side, fn, lab, verb), good, why, loc)
    # byte order of number <-> bytes conversions: the same on both serde sides, and the generic decoder's where it has one
    for (side, m, fn), tab in sorted(tabs.items()):
        if side != "serializer":
            continue
        for lab in sorted(tab):
            if lab == "Union":
                continue   # the branch is handled by the recursion into the same cells
            so = ORDER.get((SER + fn, lab), [])
            for (side2, m2, fn2), tab2 in tabs.items():
                if side2 == "deserializer" and m2 == m and lab in tab2:
                    do = ORDER.get((DES + fn2, lab), [])
                    rep.ob("C16.R1", "serde %s under %s: number/bytes conversions use the same byte order on both sides" % (m, lab), so == do,
                           "serializer converts with %s, deserializer with %s" % (so, do), prog.bodies[SER + fn].loc())
            for c in wiretab.refine(lab, dec.keys()):
                go = sorted(set(x.rstrip("*") for p in dec[c]["paths"] for x in p if BYTEORDER.match(x.rstrip("*"))))
                if go and (so or lab in ("Float", "Double")):
                    rep.ob("C16.R1", "serde %s under %s uses the generic decoder's byte order %s" % (m, lab, go), so == go, "serializer converts with %s" % so, prog.bodies[SER + fn].loc())
    rep.analysed["(method, shape) cells with a success path"] = n_cells
    rep.floor("C16.R1", "method/shape cells", n_cells, 90)
    # (c) accepted shape sets
    for m in SCALAR:
        s_sh = set()
        d_sh = set()
        for (side, mm, fn), tab in tabs.items():
            if mm != m:
                continue
            (s_sh if side == "serializer" else d_sh).update(k for k in tab if k != "Union")
        for lab in sorted(s_sh | d_sh):
            both = lab in s_sh and lab in d_sh
            only = "serializer" if lab in s_sh and lab not in d_sh else ("deserializer" if lab in d_sh and lab not in s_sh else None)
            ok = both or allowed.get((m, lab)) == only
            rep.ob("C16.R1", "serde %s under %s: serializer and deserializer agree on accepting it" % (m, lab), ok,
                   "only the %s accepts %s for `%s`: a value written under this schema cannot be read back by the same serde type (or the reverse)" % (only, lab, m), "")

    # ---------------------------------------------------------------- R6 composite methods: accepted shapes agree
    rep.rule("C16.R6", "composite serde methods (seq, tuple, map, struct, option, enum variants ...): the schema shapes the serializer accepts are the shapes the deserializer accepts for the dual method")
    PAIRS = [(["seq"], ["seq"]), (["tuple"], ["tuple"]), (["tuple_struct"], ["tuple_struct"]), (["map"], ["map"]), (["struct"], ["struct"]),
             (["newtype_struct"], ["newtype_struct"]), (["unit_struct"], ["unit_struct"]), (["some", "none"], ["option"]),
             (["unit_variant", "newtype_variant", "tuple_variant", "struct_variant"], ["enum"])]

    def accepted(pre, verb, m):
        key = pre + verb + m
        b = prog.bodies.get(key)
        if b is None:
            rep.anchor_error("C16.R6", key)
            return None
        vp = w.vpes(b)
        if KEY not in vp.keys():
            return None
        acc = set()
        for s_, reg in key_shapes(vp, KEY):
            sm = w.summary(key, s_)
            if sm["exits"]["can_ok"]:
                acc.add(shape_label(s_).split("(")[0])
        return acc
    n6 = 0
    for sm_, dm_ in PAIRS:
        sa = set()
        da = set()
        okp = True
        for m in sm_:
            a = accepted(SER, "serialize_", m)
            if a is None:
                okp = False
            else:
                sa |= a
        for m in dm_:
            a = accepted(DES, "deserialize_", m)
            if a is None:
                okp = False
            else:
                da |= a
        if not rep.ob("C16.R6", "serialize_%s / deserialize_%s discriminate the schema" % ("|".join(sm_), "|".join(dm_)), okp and bool(sa) and bool(da), "", ""):
            continue
        for lab in sorted(sa | da):
            n6 += 1
            only = "serializer" if lab not in da else ("deserializer" if lab not in sa else None)
            rep.ob("C16.R6", "serde %s under %s: serializer and deserializer agree on accepting it" % ("|".join(sm_), lab), only is None,
                   "only the %s accepts a %s schema for %s: what one side writes under this schema the other side refuses (or the reverse)" % (only, lab, "|".join(sm_)), "")
    rep.floor("C16.R6", "composite method/shape cells", n6, 44)

    # ---------------------------------------------------------------- R7 / R8 the schema-less path (to_value / from_value)
    # "the same bytes result from converting the Rust value to a generic value, resolving it against the schema and encoding
    #  that, and the Rust value is recovered from the generically decoded value" - for scalars:
    #  R7  for every (method m, shape S) the schema-aware serializer accepts, the Value variant the schema-less serializer
    #      builds for m resolves against S (resolver cell not `never`); resolve + encode then give the decoder's tokens by
    #      C08/C01, which are the schema-aware tokens by R1
    #  R8  the Value variant the generic decoder builds for S is handed by the schema-less deserializer's method for m to a
    #      visitor method of m's class (an i32 field is offered an integer, a String a string ...)
    rep.rule("C16.R7", "schema-less serializer: the value it builds for a scalar resolves against every schema shape under which the schema-aware serializer accepts that scalar")
    rep.rule("C16.R8", "schema-less deserializer: the value the generic decoder builds for a shape is offered to the visitor as the kind of scalar the schema-aware serializer accepted under that shape")
    import restab
    RT = restab.table(prog)
    SL = "<serde::ser::Serializer as serde::Serializer>::serialize_"
    SLD = "<serde::de::Deserializer<'de> as serde::Deserializer<'de>>::deserialize_"
    IKEY = (1, (".input",))

    def sl_builds(key, seen=()):
        b = prog.bodies[key]
        out = set(st["rv"]["variant"] for _, _, st in b.stmts() if st["s"] == "assign" and st["rv"]["r"] == "agg" and st["rv"].get("adt") == "types::Value")
        for _, t in b.calls():
            for n_ in callee_names(t["func"]):
                if n_.startswith(SL) and n_ not in seen and n_ != key and n_ in prog.bodies:
                    out |= sl_builds(n_, seen + (key,))
        return out

    def visit_table(m, depth=0):
        b = prog.bodies.get(SLD + m)
        if b is None:
            return None
        vp = w.vpes(b)
        if IKEY not in vp.keys():
            for _, t in b.calls():
                for n_ in callee_names(t["func"]):
                    if n_.startswith(SLD) and n_ != SLD + m and depth < 2:
                        return visit_table(n_[len(SLD):], depth + 1)
            return None
        out = {}
        for s_, reg in key_shapes(vp, IKEY):
            vis = set(callee_names(b.blocks[x]["term"]["func"])[0].split("::")[-1] for x in reg if b.blocks[x]["term"]["t"] == "call" and "Visitor::visit" in callee_names(b.blocks[x]["term"]["func"])[0])
            out.setdefault(s_[IKEY], set()).update(vis)
        return out
    INTS = {"visit_i8", "visit_i16", "visit_i32", "visit_i64", "visit_u8", "visit_u16", "visit_u32", "visit_u64"}
    STRS = {"visit_str", "visit_borrowed_str", "visit_string"}
    BYTES = {"visit_bytes", "visit_borrowed_bytes", "visit_byte_buf"}
    CLASS = {"bool": {"visit_bool"}, "f32": {"visit_f32", "visit_f64"} | INTS, "f64": {"visit_f32", "visit_f64"} | INTS, "char": {"visit_char"} | STRS, "str": STRS,
             "bytes": BYTES | STRS, "unit": {"visit_unit"}, "i128": INTS | {"visit_i128", "visit_u128"}, "u128": INTS | {"visit_i128", "visit_u128"}}
    for m_ in ("i8", "i16", "i32", "i64", "u8", "u16", "u32", "u64"):
        CLASS[m_] = INTS
    DUAL = {"str": ["str", "string"], "bytes": ["bytes", "byte_buf"]}
    n7 = n8 = 0
    for m in SCALAR:
        if SL + m not in prog.bodies:
            rep.anchor_error("C16.R7", SL + m)
            continue
        V = sl_builds(SL + m)
        stab = tabs.get(("serializer", m, "serialize_" + m), {})
        for S in sorted(stab):
            if S == "Union":
                continue
            cells = [(v, RT["cells"].get((v, S)) or RT["cells"].get((v, S.split("(")[0]))) for v in sorted(V)]
            n7 += 1
            rep.ob("C16.R7", "serde %s under %s: the schema-less value (%s) resolves against the schema" % (m, S, "|".join(sorted(V))), any(c is not None and c["cls"] != "never" for _, c in cells),
                   "to_value gives Value::%s for this scalar, Value::resolve has no success path for it under %s, while the schema-aware serializer writes it: the two serde paths disagree" % ("|".join(sorted(V)), S),
                   prog.bodies[SL + m].loc())
            # R8
            built = set()
            for c in wiretab.refine(S, dec.keys()):
                built |= set(dec[c].get("values_ok") or [])
            for dm in DUAL.get(m, [m]):
                vt = visit_table(dm)
                if vt is None:
                    rep.anchor_error("C16.R8", SLD + dm)
                    continue
                for v in sorted(built):
                    n8 += 1
                    vis = vt.get(v, set())
                    rep.ob("C16.R8", "serde %s under %s: from_value offers Value::%s to deserialize_%s as %s" % (m, S, v, dm, "/".join(sorted(CLASS[m] & vis)) or "the scalar's kind"), bool(vis) and vis <= CLASS[m],
                           "the generic decoder builds Value::%s for a %s datum; deserialize_%s hands it to %s, which a %s target does not accept: the value written by the schema-aware serializer is not recovered through the generic path" % (v, S, dm, sorted(vis) or "no visitor method", m),
                           prog.bodies[SLD + dm].loc() if SLD + dm in prog.bodies else "")
    rep.floor("C16.R7", "scalar method/shape cells of the schema-less serializer", n7, 40)
    rep.floor("C16.R8", "scalar method/shape/value cells of the schema-less deserializer", n8, 40)

    # ---------------------------------------------------------------- R3 / R4 imports
    import c13
    sub = common.Report("C13", tier, 0)
    c13.run(sub, tier=tier, collect_only=True)
    n3 = 0
    for o in sub.obligations:
        if o["rule"] in ("C13.R1", "C13.R2") and ("serde::ser_schema" in o["instance"] or "ser_schema" in o["loc"]):
            n3 += 1
            rep.ob("C16.R3", "[%s] %s" % (o["rule"], o["instance"]), o["ok"], o["detail"], o["loc"])
    rep.floor("C16.R3", "imported byte-count obligations of the serde writers", n3, 10)
    import c02
    sub = common.Report("C02", tier, 0)
    c02.run(sub, tier=tier, collect_only=True)
    n4 = 0
    for o in sub.obligations:
        if o["rule"] == "C02.R5" or o["rule"] in ("C02.R2", "C02.R3") and ("Block" in o["instance"] or "write_block" in o["instance"] or "next_" in o["instance"] or "block is flushed" in o["instance"] or "serialize_key" in o["instance"]):
            n4 += 1
            rep.ob("C16.R4", "[%s] %s" % (o["rule"], o["instance"]), o["ok"], o["detail"], o["loc"])
    rep.floor("C16.R4", "imported block-framing obligations", n4, 10)

    # ---------------------------------------------------------------- R5
    RS = "serde::ser_schema::record::RecordSerializer::<'s, 'w, W, S>::"
    nf = prog.bodies.get(RS + "serialize_next_field")
    if nf is None:
        rep.anchor_error("C16.R5", RS + "serialize_next_field")
    else:
        cmp_ = [(bi, t) for bi, t in calls_named(nf, "std::cmp::Ord::cmp") if "field_position" in nf.opdesc(t["args"][0]) or "field_position" in nf.opdesc(t["args"][1])]
        rep.ob("C16.R5", "serialize_next_field compares the field's position with the next position to write", len(cmp_) == 1, "", nf.loc())
        rem = [(bi, t) for bi, t in calls_named(nf, "std::collections::HashMap::<K, V, S, A>::remove") if "cache" in nf.opdesc(t["args"][0])]
        ins = [(bi, t) for bi, t in calls_named(nf, "std::collections::HashMap::<K, V, S, A>::insert") if "cache" in nf.opdesc(t["args"][0])]
        rep.ob("C16.R5", "fields that arrive early are cached; a second value for a cached position is an error", len(ins) == 1 and shape.option_switch(nf, ins[0][1]["dest"]["l"]) is not None or
               (len(ins) == 1 and any(callee_names(t["func"])[0].endswith("is_some") for _, t in nf.calls())), "", nf.loc())
        rep.ob("C16.R5", "after an in-order field every consecutive cached field is flushed (loop over cache.remove(next position))",
               len(rem) == 1 and nf.in_loop(rem[0][0]) and "field_position" in nf.opdesc(rem[0][1]["args"][1]),
               "only one cached field is flushed per in-order field: with two or more consecutive cached fields the later ones are stranded and RecordSerializer::end writes their defaults instead of their values", nf.loc(rem[0][0]) if rem else nf.loc())
        incs = [bi for bi, si, st in nf.stmts() if st["s"] == "assign" and st["pl"]["p"] and nf.pldesc(st["pl"]).endswith("field_position")]
        rep.ob("C16.R5", "the next position advances after the in-order field and after each flushed cached field", len(incs) >= 2 and any(nf.in_loop(x) for x in incs) and any(not nf.in_loop(x) for x in incs), "", nf.loc())
    en = prog.bodies.get(RS + "end")
    if en is not None:
        sd = calls_named(en, RS + "serialize_default")
        rep.ob("C16.R5", "RecordSerializer::end fills every remaining position with its default (loop until all fields are written)", len(sd) == 1 and en.in_loop(sd[0][0]), "", en.loc())

    if collect_only:
        return rep
    rep.floor("C16", "obligations", len(rep.obligations), 150)
    rep.not_decided = ["equality of Rust values after a round trip", "schema-less mapping of composite types", "composite methods (seq/map/struct/tuple/newtype/option): their framing is R4/R5, their elements recurse into the scalar cells"]
    return common.finish(rep, level="other",
                         explanation="variant-partitioned path summaries of every scalar serde method of SchemaAwareSerializer and SchemaAwareDeserializer (schema taken from the `self.schema` field) compared cell by cell with the generic decoder's table; imported byte-count and block-framing obligations; loop/def-use shape of RecordSerializer",
                         assumptions=["serde calls the data-model method documented for each Rust type"], evidence_dir=evidence_dir)
