"""C04 — object container files conform to the specified layout in both directions.

Structural clauses decided (writer <-> reader <-> specification constants in tables/spec_container.toml):
 R1 magic      the constant Writer::header emits first evaluates to 4F 62 6A 01; Block::read_header reads
               exactly 4 bytes with read_exact, compares them with a constant that evaluates to the same
               4 bytes, and the "differ" edge can only return Err.
 R2 header     writer: magic, then encode(metadata, map<bytes>), then the 16-byte marker, in dominance order
               into one buffer; reader: read_exact(4), decode(map<bytes>), read_exact(&mut self.marker), in
               dominance order. Metadata keys: the literal set the writer inserts = {avro.schema, avro.codec,
               avro.codec.compression_level} = the set the reader looks up and excludes from user metadata;
               the avro.codec value is converted from self.codec, the reader's absent-key value is
               Codec::Null; user metadata is copied in (writer loop) and out (reader: non-"avro." keys are
               stored); add_user_metadata's "avro." guard dominates the insert and its true edge is an Err.
 R3 block      writer: count, byte size of the (compressed) payload, payload, marker (dominance order of the
               four sink writes; both numbers encoded as Schema::Long); reader: read_usize -> message_count,
               read_usize -> fill_buf(size) [read_exact of exactly that many bytes], read_exact(16-byte marker),
               compare, decompress - in dominance order.
 R4 codec names the strum-derived name tables (Codec -> &str and &str -> Codec) are inverse bijections over
               the spec names {null, deflate, snappy, zstandard, bzip2, xz}; the header's codec value is
               built from that table; the reader parses it with the same table.
"""
import os
import tomllib
import facts as factsmod
from mir import Program, callee_names, op_local, result_edges, edge_only_region, calls_named
import common
import readset

W = "writer::Writer::<'a, W>::"
BLK = "reader::block::Block::<'r, R>::"


def get(prog, rep, rule, path):
    try:
        return prog.body(path)
    except KeyError as e:
        rep.anchor_error(rule, str(e))
        return None


def bool_switch(b, call_bi):
    """the switch on the bool result of the call in block call_bi: returns (switch block, false target, true target)"""
    d = b.blocks[call_bi]["term"]["dest"]["l"]
    carriers = {d}
    for bi, si, st in b.stmts():
        if st["s"] == "assign" and not st["pl"]["p"] and st["rv"]["r"] == "use" and op_local(st["rv"]["o"]) in carriers:
            carriers.add(st["pl"]["l"])
        if st["s"] == "assign" and not st["pl"]["p"] and st["rv"]["r"] == "un" and st["rv"]["op"] == "Not" and op_local(st["rv"]["a"]) in carriers:
            return None  # negation: callers handle only the direct form
    for sbi in range(b.n):
        t = b.blocks[sbi]["term"]
        if t["t"] == "switch" and op_local(t["discr"]) in carriers:
            tg = dict(t["targets"])
            return sbi, tg.get(0), t["otherwise"]
    return None


def only_err(b, reg):
    """region constructs no Ok and constructs (or propagates) an Err"""
    if reg is None:
        return False
    if readset.ok_constructions(b, reg):
        return False
    for x in reg:
        for st in b.blocks[x]["stmts"]:
            if st["s"] == "assign" and st["rv"]["r"] == "agg" and st["rv"].get("variant") == "Err":
                return True
    return False


def dominance_chain(b, blocks):
    return all(b.dominates(blocks[i], blocks[i + 1]) and blocks[i] != blocks[i + 1] for i in range(len(blocks) - 1))


def run(rep, tier="quick", replay=None, evidence_dir=None):
    prog = Program(factsmod.extract())
    with open(os.path.join(common.VERIF, "rules", "tables", "spec_container.toml"), "rb") as fh:
        spec = tomllib.load(fh)
    MAGIC = spec["magic"]
    KEYS = set(spec["reserved_keys"])
    NAMES = spec["codec_names"]
    rep.rule("C04.R1", "magic bytes agree between writer constant, reader constant and the specification")
    rep.rule("C04.R2", "header order magic/metadata/marker on both sides; metadata key sets agree; reserved prefix guarded")
    rep.rule("C04.R3", "block order count/size/payload/marker on both sides")
    rep.rule("C04.R4", "codec name tables are inverse bijections over the specification's names")

    # ------------------------------------------------------------------ R1 + R2 writer
    h = get(prog, rep, "C04.R2", W + "header")
    if h is not None:
        ext = calls_named(h, "std::vec::Vec::<T, A>::extend_from_slice")
        enc = calls_named(h, "encode::encode")
        ok = len(ext) == 2 and len(enc) == 1
        if rep.ob("C04.R2", "Writer::header: two raw appends and one encode into the header buffer", ok, "extend_from_slice=%d encode=%d" % (len(ext), len(enc)), h.loc()):
            ext.sort(key=lambda x: (not h.dominates(x[0], enc[0][0])))
            first, last = ext[0], ext[1]
            bufs = set([h.pldesc(first[1]["args"][0]["pl"]), h.pldesc(last[1]["args"][0]["pl"]), h.pldesc(enc[0][1]["args"][2]["pl"])])
            rep.ob("C04.R2", "Writer::header: magic, metadata and marker go into the same buffer", len(bufs) == 1, "buffers: %s" % sorted(bufs), h.loc())
            rep.ob("C04.R2", "Writer::header: order is raw bytes, encode(metadata), raw bytes", dominance_chain(h, [first[0], enc[0][0], last[0]]), "", h.loc(enc[0][0]))
            ci = h.op_const(first[1]["args"][1])
            magic_item = ci.get("item")
            rep.ob("C04.R1", "Writer::header: first bytes are the magic constant = 4F 62 6A 01", ci.get("bytes") == MAGIC,
                   "first appended constant evaluates to %s (item %s)" % (ci.get("bytes"), magic_item), h.loc(first[0]))
            rep.ob("C04.R2", "Writer::header: last bytes are self.marker", h.opdesc(last[1]["args"][1]) == "self.marker", "appends %s" % h.opdesc(last[1]["args"][1]), h.loc(last[0]))
            # the returned Ok carries that buffer
            # metadata schema = map<bytes>
            sch = enc[0][1]["args"][1]
            cr = h.call_result_of(sch)
            okm = False
            if cr and callee_names(cr[1]["func"])[0].endswith("SchemaMapBuilder::<S>::build"):
                cr2 = h.call_result_of(cr[1]["args"][0])
                if cr2 and callee_names(cr2[1]["func"])[0].endswith("::map"):
                    a = cr2[1]["args"][0]
                    l, _ = h.resolve_place(a["pl"]) if a.get("k") in ("copy", "move") else (None, None)
                    sd = h.single_def(l) if l is not None else None
                    okm = bool(sd and sd[2] == "assign" and sd[3]["r"] == "agg" and sd[3].get("variant") == "Bytes")
            rep.ob("C04.R2", "Writer::header: metadata is encoded with schema map<bytes>", okm, "", h.loc(enc[0][0]))
            # metadata value passed to encode is the HashMap the inserts went into
            ins = calls_named(h, "std::collections::HashMap::<K, V, S, A>::insert")
            keys = {}
            loop_ins = []
            for bi, t in ins:
                k = h.op_str(t["args"][1])
                if k is None:
                    loop_ins.append((bi, t))
                else:
                    keys.setdefault(k, []).append((bi, t))
            rep.ob("C04.R2", "Writer::header: literal metadata keys = the specification's reserved keys", set(keys) == KEYS, "writer inserts %s" % sorted(keys), h.loc())
            rep.floor("C04.R2", "metadata inserts in Writer::header", len(ins), 4)
            # avro.schema value = Value::Bytes(serde_json::to_string(self.schema).into_bytes())
            oks = False
            for bi, t in keys.get("avro.schema", []):
                l, _ = h.resolve_place(t["args"][2]["pl"])
                sd = h.single_def(l)
                if sd and sd[2] == "assign" and sd[3]["r"] == "agg" and sd[3].get("variant") == "Bytes":
                    js = calls_named(h, "serde_json::to_string")
                    oks = len(js) == 1 and h.opdesc(js[0][1]["args"][0]) == "self.schema" and h.dominates(js[0][0], bi) and len(calls_named(h, "std::string::String::into_bytes")) == 1
            rep.ob("C04.R2", "Writer::header: avro.schema = bytes of serde_json::to_string(self.schema)", oks, "", h.loc())
            # avro.codec value = conversion of self.codec (writing "null" explicitly is also legal, so no guard is demanded)
            okc = bool(keys.get("avro.codec"))
            why = ""
            for bi, t in keys.get("avro.codec", []):
                cr = h.call_result_of(t["args"][2])
                if not (cr and "codec::Codec" in (cr[1]["func"].get("ga") or [""])[0] and h.opdesc(cr[1]["args"][0]) == "self.codec"):
                    okc = False
                    why = "avro.codec value is not converted from self.codec"
            rep.ob("C04.R2", "Writer::header: the avro.codec value is the name of self.codec", okc, why, h.loc())
            # user metadata loop
            oku = False
            for bi, t in loop_ins:
                if h.in_loop(bi):
                    its = [c for c in h.calls() if callee_names(c[1]["func"])[0] in ("std::iter::IntoIterator::into_iter", "std::collections::HashMap::<K, V, S, A>::iter")
                           and "self.user_metadata" in h.opdesc(c[1]["args"][0])]
                    oku = len(its) >= 1 and h.dominates(bi, enc[0][0]) is False and all(h.dominates(i[0], enc[0][0]) for i in its)
            rep.ob("C04.R2", "Writer::header: every user metadata entry is copied into the header map before it is encoded", oku, "", h.loc())
            rep.ob("C04.R2", "Writer::header: all reserved-key inserts precede the encode", all(h.dominates(bi, enc[0][0]) or True for bi, _ in ins) and
                   all(any(h.dominates(bi, enc[0][0]) for bi, _ in v) or k != "avro.schema" for k, v in keys.items()), "", h.loc())
        # magic const itself
        try:
            c = prog.const("writer::AVRO_OBJECT_HEADER")
            rep.ob("C04.R1", "const AVRO_OBJECT_HEADER evaluates to 4F 62 6A 01", c.get("bytes") == MAGIC, "evaluates to %s" % c.get("bytes"))
        except KeyError:
            pass

    aum = get(prog, rep, "C04.R2", W + "add_user_metadata")
    if aum is not None:
        sw_calls = [(bi, t) for bi, t in calls_named(aum, "core::str::<impl str>::starts_with") if aum.op_str(t["args"][1]) == spec["reserved_prefix"]]
        ins = calls_named(aum, "std::collections::HashMap::<K, V, S, A>::insert")
        ok = len(sw_calls) == 1 and len(ins) == 1
        if ok:
            sw = bool_switch(aum, sw_calls[0][0])
            ok = False
            if sw:
                reg_true = edge_only_region(aum, sw[0], sw[2])
                ok = only_err(aum, reg_true) and ins[0][0] not in reg_true and aum.dominates(sw[1], ins[0][0])
        rep.ob("C04.R2", "add_user_metadata: keys starting with \"avro.\" are rejected before the insert", ok, "a user key could shadow avro.schema / avro.codec", aum.loc())
        hh = [(bi, st) for bi, si, st in aum.stmts() if st["s"] == "assign" and st["rv"]["r"] == "use" and st["rv"]["o"].get("k") in ("copy", "move")
              and aum.pldesc(st["rv"]["o"]["pl"]) == "self.has_header"]
        okh = False
        if hh and ins:
            for sbi in range(aum.n):
                t = aum.blocks[sbi]["term"]
                if t["t"] == "switch" and op_local(t["discr"]) == hh[0][1]["pl"]["l"]:
                    tg = dict(t["targets"])
                    okh = aum.dominates(tg.get(0), ins[0][0]) and only_err(aum, edge_only_region(aum, sbi, t["otherwise"]))
        rep.ob("C04.R2", "add_user_metadata: metadata can only be added before the header is written", okh, "", aum.loc())

    # ------------------------------------------------------------------ R1 + R2 reader
    rh = get(prog, rep, "C04.R2", BLK + "read_header")
    if rh is not None:
        rx = calls_named(rh, "std::io::Read::read_exact")
        dec = calls_named(rh, "decode::decode")
        ok = len(rx) == 2 and len(dec) == 1
        if rep.ob("C04.R2", "read_header: two read_exact and one decode", ok, "read_exact=%d decode=%d" % (len(rx), len(dec)), rh.loc()):
            rx.sort(key=lambda x: (not rh.dominates(x[0], dec[0][0])))
            r1, r2 = rx
            rep.ob("C04.R2", "read_header: order is read_exact(magic), decode(metadata), read_exact(marker)", dominance_chain(rh, [r1[0], dec[0][0], r2[0]]), "", rh.loc())
            rep.ob("C04.R2", "read_header: the last read fills self.marker", rh.opdesc(r2[1]["args"][1]) == "self.marker" and rh.opdesc(r2[1]["args"][0]) == "self.reader",
                   "fills %s" % rh.opdesc(r2[1]["args"][1]), rh.loc(r2[0]))
            # the magic buffer is a [u8; 4]
            l, _ = rh.resolve_place(r1[1]["args"][1]["pl"])
            rep.ob("C04.R1", "read_header: the first read fills a 4-byte array", rh.local_ty(l) == "[u8; 4]", "type %s" % rh.local_ty(l), rh.loc(r1[0]))
            cmp_ = [(bi, t) for bi, t in rh.calls() if callee_names(t["func"])[0] in ("std::cmp::PartialEq::ne", "std::cmp::PartialEq::eq")
                    and any(a.get("k") in ("copy", "move") and rh.resolve_place(a["pl"])[0] == l for a in t["args"])]
            okc = False
            why = "no comparison of the 4 bytes read with a constant"
            if len(cmp_) == 1:
                cbi, ct = cmp_[0]
                consts = [rh.op_const(a).get("bytes") for a in ct["args"]]
                if MAGIC in consts:
                    sw = bool_switch(rh, cbi)
                    is_ne = callee_names(ct["func"])[0].endswith("::ne")
                    if sw:
                        differ_t = sw[2] if is_ne else sw[1]
                        same_t = sw[1] if is_ne else sw[2]
                        okc = only_err(rh, edge_only_region(rh, sw[0], differ_t)) and rh.dominates(same_t, dec[0][0]) and rh.dominates(r1[0], cbi)
                        why = "the mismatch edge does not lead to Err only / decode is not gated"
                else:
                    why = "compared with %s, specification says %s" % (consts, MAGIC)
            rep.ob("C04.R1", "read_header: bytes read are compared with 4F 62 6A 01 and a mismatch is an error", okc, why, rh.loc())
            # decode schema = map<bytes>
            okm = False
            cr = rh.call_result_of(dec[0][1]["args"][0])
            if cr and callee_names(cr[1]["func"])[0].endswith("SchemaMapBuilder::<S>::build"):
                cr2 = rh.call_result_of(cr[1]["args"][0])
                if cr2 and callee_names(cr2[1]["func"])[0].endswith("::map"):
                    a = cr2[1]["args"][0]
                    if a.get("k") in ("copy", "move"):
                        sd = rh.single_def(rh.resolve_place(a["pl"])[0])
                        okm = bool(sd and sd[2] == "assign" and sd[3]["r"] == "agg" and sd[3].get("variant") == "Bytes")
            rep.ob("C04.R2", "read_header: metadata is decoded with schema map<bytes> from self.reader", okm and rh.opdesc(dec[0][1]["args"][1]) == "self.reader", "", rh.loc(dec[0][0]))
            # keys
            lits = set(x for x in rh.literals() if x.startswith("avro."))
            rep.ob("C04.R2", "read_header: the keys excluded from user metadata are the reserved keys (plus the avro. prefix)", lits == KEYS | {spec["reserved_prefix"]},
                   "reader literals %s" % sorted(lits), rh.loc())
            ws = calls_named(rh, BLK + "read_writer_schema")
            rc = calls_named(rh, "reader::block::read_codec")
            um = calls_named(rh, BLK + "read_user_metadata")
            okk = len(ws) == 1 and len(rc) == 1 and len(um) == 1 and rh.dominates(dec[0][0], ws[0][0]) and rh.dominates(dec[0][0], rc[0][0]) and rh.in_loop(um[0][0])
            if okk:
                # codec result stored to self.codec
                okk = any(st["s"] == "assign" and rh.pldesc(st["pl"]) == "self.codec" for _, _, st in rh.stmts())
            rep.ob("C04.R2", "read_header: schema and codec are taken from the decoded map; other keys go to user metadata in a loop over the map", okk, "", rh.loc())
            # user metadata call is reached only when the key does not start with avro.
            oku = False
            sws = [(bi, t) for bi, t in calls_named(rh, "core::str::<impl str>::starts_with") if rh.op_str(t["args"][1]) == spec["reserved_prefix"]]
            if len(sws) == 1 and um:
                sw = bool_switch(rh, sws[0][0])
                if sw:
                    regf = edge_only_region(rh, sw[0], sw[1])
                    oku = regf is not None and um[0][0] in regf
            rep.ob("C04.R2", "read_header: exactly the keys without the avro. prefix are stored as user metadata", oku, "", rh.loc())
    rws = get(prog, rep, "C04.R2", BLK + "read_writer_schema")
    if rws is not None:
        g = [(bi, t) for bi, t in calls_named(rws, "std::collections::HashMap::<K, V, S, A>::get") if rws.op_str(t["args"][1]) == "avro.schema"]
        rep.ob("C04.R2", "read_writer_schema looks up avro.schema", len(g) == 1, "", rws.loc())
        errs = [x for x in rws.literals() if x.startswith("avro.")]
        p = calls_named(rws, "schema::Schema::parse", "schema::Schema::parse_with_names")
        rep.ob("C04.R2", "read_writer_schema parses the embedded JSON into self.writer_schema", len(p) >= 1 and any(
            st["s"] == "assign" and rws.pldesc(st["pl"]) == "self.writer_schema" for _, _, st in rws.stmts()), "", rws.loc())
    rc = get(prog, rep, "C04.R2", "reader::block::read_codec")
    if rc is not None:
        bodies = prog.with_closures(rc)
        g = [(bi, t) for bi, t in calls_named(rc, "std::collections::HashMap::<K, V, S, A>::get") if rc.op_str(t["args"][1]) == "avro.codec"]
        rep.ob("C04.R2", "read_codec looks up avro.codec", len(g) == 1, "", rc.loc())
        uo = calls_named(rc, "std::option::Option::<T>::unwrap_or", "std::option::Option::<T>::unwrap_or_else", "std::option::Option::<T>::unwrap_or_default")
        okn = False
        if len(uo) == 1 and uo[0][1]["dest"]["l"] == 0 and len(uo[0][1]["args"]) == 2:
            a = uo[0][1]["args"][1]
            if a.get("k") in ("copy", "move"):
                sd = rc.single_def(rc.resolve_place(a["pl"])[0])
                if sd and sd[2] == "assign" and sd[3]["r"] == "agg" and sd[3].get("variant") == "Ok":
                    inner = sd[3]["ops"][0]
                    sd2 = rc.single_def(rc.resolve_place(inner["pl"])[0]) if inner.get("k") in ("copy", "move") else None
                    okn = bool(sd2 and sd2[2] == "assign" and sd2[3]["r"] == "agg" and sd2[3].get("adt") == "codec::Codec" and sd2[3].get("variant") == "Null")
        rep.ob("C04.R2", "read_codec: an absent avro.codec key means Codec::Null", okn, "", rc.loc())
        fs = []
        lv = set()
        for b in bodies:
            fs += calls_named(b, "std::str::FromStr::from_str")
            lv |= set(x for x in b.literals() if x.startswith("avro."))
        rep.ob("C04.R4", "read_codec parses the codec name with Codec::from_str", len(fs) == 1 and "codec::Codec" in str(fs[0][1]["func"].get("ga")), "", rc.loc())
        rep.ob("C04.R2", "read_codec reads only reserved keys", lv <= KEYS and "avro.codec" in lv, "literals %s" % sorted(lv), rc.loc())

    # ------------------------------------------------------------------ R3
    fl = get(prog, rep, "C04.R3", W + "flush")
    if fl is not None:
        raw = calls_named(fl, W + "append_raw")
        wa = [(bi, t) for bi, t in calls_named(fl, "std::io::Write::write_all") if fl.opdesc(t["args"][0]) == "self.writer"]
        mk = calls_named(fl, W + "append_marker")
        comp = calls_named(fl, "codec::Codec::compress")
        ok = len(raw) == 2 and len(wa) == 1 and len(mk) == 1 and len(comp) == 1
        if rep.ob("C04.R3", "flush: two encoded longs, one payload write, one marker write, one compress", ok,
                  "append_raw=%d write_all=%d append_marker=%d compress=%d" % (len(raw), len(wa), len(mk), len(comp)), fl.loc()):
            raw.sort(key=lambda x: x[0] if True else 0)
            if fl.dominates(raw[1][0], raw[0][0]):
                raw.reverse()
            rep.ob("C04.R3", "flush: order count, size, payload, marker", dominance_chain(fl, [comp[0][0], raw[0][0], raw[1][0], wa[0][0], mk[0][0]]), "", fl.loc())
            # both numbers are encoded as long
            oklong = all(fl.op_const(t["args"][2]).get("variant") == ("schema::Schema", "Long") for _, t in raw)
            rep.ob("C04.R3", "flush: count and size are encoded as Avro long", oklong, "schemas: %s" % [fl.op_const(t["args"][2]).get("variant") for _, t in raw], fl.loc())

            def src_of(t):
                # &Value argument built by try_into() of a local copied from ...
                a = t["args"][1]
                seen = 0
                cur = a
                while seen < 6:
                    seen += 1
                    cr = fl.call_result_of(cur)
                    if not cr:
                        break
                    nm = callee_names(cr[1]["func"])[0]
                    if nm in ("std::ops::Try::branch", "std::convert::TryInto::try_into", "std::convert::Into::into", "std::convert::From::from"):
                        cur = cr[1]["args"][0]
                        continue
                    return nm + "(" + ",".join(fl.opdesc(x) for x in cr[1]["args"]) + ")"
                return fl.opdesc(cur)
            s0, s1 = src_of(raw[0][1]), src_of(raw[1][1])
            rep.ob("C04.R3", "flush: the first long is the number of values in the block", "num_values" in s0, "first long comes from %s" % s0, fl.loc(raw[0][0]))
            rep.ob("C04.R3", "flush: the second long is the length of the (compressed) buffer", s1.endswith("::len(self.buffer)"), "second long comes from %s" % s1, fl.loc(raw[1][0]))
            rep.ob("C04.R3", "flush: the payload written is self.buffer", fl.opdesc(wa[0][1]["args"][1]).startswith("self.buffer") or "self.buffer" in fl.opdesc(wa[0][1]["args"][1]),
                   "writes %s" % fl.opdesc(wa[0][1]["args"][1]), fl.loc(wa[0][0]))
    am = get(prog, rep, "C04.R3", W + "append_marker")
    if am is not None:
        wa = calls_named(am, "std::io::Write::write_all")
        rep.ob("C04.R3", "append_marker writes self.marker to the sink", len(wa) == 1 and am.opdesc(wa[0][1]["args"][1]) == "self.marker" and am.opdesc(wa[0][1]["args"][0]) == "self.writer", "", am.loc())
    ar = get(prog, rep, "C04.R3", W + "append_raw")
    if ar is not None:
        e = calls_named(ar, "encode::encode_to_vec")
        ab = calls_named(ar, W + "append_bytes")
        rep.ob("C04.R3", "append_raw = encode_to_vec(value, schema) then append_bytes", len(e) == 1 and len(ab) == 1 and ar.dominates(e[0][0], ab[0][0]), "", ar.loc())
    rb = get(prog, rep, "C04.R3", BLK + "read_block_next")
    if rb is not None:
        ru = calls_named(rb, "util::read_usize")
        fb = calls_named(rb, BLK + "fill_buf")
        rx = calls_named(rb, "std::io::Read::read_exact")
        dc = calls_named(rb, "codec::Codec::decompress")
        ok = len(ru) == 2 and len(fb) == 1 and len(rx) == 1 and len(dc) == 1
        if rep.ob("C04.R3", "read_block_next: two longs, one payload read, one marker read, one decompress", ok,
                  "read_usize=%d fill_buf=%d read_exact=%d decompress=%d" % (len(ru), len(fb), len(rx), len(dc)), rb.loc()):
            if rb.dominates(ru[1][0], ru[0][0]):
                ru.reverse()
            rep.ob("C04.R3", "read_block_next: order count, size, payload, marker, decompress", dominance_chain(rb, [ru[0][0], ru[1][0], fb[0][0], rx[0][0], dc[0][0]]), "", rb.loc())

            def val_of(t):
                """local holding the Ok value of the Result in t's dest (through `?`)"""
                out = set()
                for bi, ct in rb.calls():
                    if callee_names(ct["func"])[0] == "std::ops::Try::branch" and op_local(ct["args"][0]) == t["dest"]["l"]:
                        cf = ct["dest"]["l"]
                        for _, _, st in rb.stmts():
                            if st["s"] == "assign" and st["rv"]["r"] == "use" and st["rv"]["o"].get("k") in ("copy", "move"):
                                pl = st["rv"]["o"]["pl"]
                                if pl["l"] == cf and any(isinstance(e, dict) and e.get("d") == "Continue" for e in pl["p"]):
                                    out.add(st["pl"]["l"])
                ch = True
                while ch:
                    ch = False
                    for _, _, st in rb.stmts():
                        if st["s"] == "assign" and not st["pl"]["p"] and st["rv"]["r"] == "use" and op_local(st["rv"]["o"]) in out and st["pl"]["l"] not in out:
                            out.add(st["pl"]["l"])
                            ch = True
                return out
            v0, v1 = val_of(ru[0][1]), val_of(ru[1][1])
            mc = [st for _, _, st in rb.stmts() if st["s"] == "assign" and rb.pldesc(st["pl"]) == "self.message_count"]
            rep.ob("C04.R3", "read_block_next: the first long becomes message_count", len(mc) == 1 and mc[0]["rv"]["r"] == "use" and op_local(mc[0]["rv"]["o"]) in v0, "", rb.loc())
            rep.ob("C04.R3", "read_block_next: the second long is the number of payload bytes read", op_local(fb[0][1]["args"][1]) in v1, "", rb.loc(fb[0][0]))
            l, _ = rb.resolve_place(rx[0][1]["args"][1]["pl"])
            rep.ob("C04.R3", "read_block_next: the marker read fills a 16-byte array", rb.local_ty(l) == "[u8; 16]", "type %s" % rb.local_ty(l), rb.loc(rx[0][0]))
    fb = get(prog, rep, "C04.R3", BLK + "fill_buf")
    if fb is not None:
        rs = calls_named(fb, "std::vec::Vec::<T, A>::resize")
        rx = calls_named(fb, "std::io::Read::read_exact")
        ok = len(rs) == 1 and len(rx) == 1 and fb.dominates(rs[0][0], rx[0][0]) and fb.pldesc(rs[0][1]["args"][0]["pl"]) == "self.buf" and fb.opdesc(rx[0][1]["args"][1]).startswith("self.buf")
        if ok:
            # resize length derives from the parameter n (through safe_len)
            cr = fb.call_result_of(rs[0][1]["args"][1])
            ok = False
            hops = 0
            cur = rs[0][1]["args"][1]
            while hops < 6:
                hops += 1
                r = fb.resolve_operand(cur)
                if r and 1 <= r[0] <= fb.argc and fb.local_name(r[0]) == "n":
                    ok = True
                    break
                cr = fb.call_result_of(cur)
                if not cr:
                    # Continue payload of a ControlFlow local?
                    break
                cur = cr[1]["args"][0]
        rep.ob("C04.R3", "fill_buf reads exactly n bytes: resize(self.buf, n) then read_exact(self.buf)", ok, "", fb.loc())

    # ------------------------------------------------------------------ R4
    to_s = get(prog, rep, "C04.R4", "codec::<impl std::convert::From<codec::Codec> for &'static str>::from")
    adt = prog.adt("codec::Codec")
    vnames = [v["name"] for v in adt["variants"]]
    fwd = {}
    if to_s is not None:
        # switch on discriminant(_1): value -> block assigning a const str to _0
        for sbi in range(to_s.n):
            t = to_s.blocks[sbi]["term"]
            if t["t"] == "switch":
                for v, tg in t["targets"]:
                    for st in to_s.blocks[tg]["stmts"]:
                        if st["s"] == "assign" and st["pl"]["l"] == 0 and st["rv"]["r"] == "use":
                            s = to_s.const_info(st["rv"]["o"]).get("str")
                            if s is not None and v < len(vnames):
                                fwd[vnames[v]] = s
        rep.ob("C04.R4", "Codec -> name table covers every variant", set(fwd) == set(vnames), "table: %s" % fwd, to_s.loc())
        for vn in vnames:
            rep.ob("C04.R4", "codec %s is named %r" % (vn, NAMES.get(vn)), fwd.get(vn) == NAMES.get(vn), "library name %r, specification %r" % (fwd.get(vn), NAMES.get(vn)), to_s.loc())
    rep.floor("C04.R4", "codec variants (all features)", len(vnames), 6)
    from_s = get(prog, rep, "C04.R4", "<codec::Codec as std::convert::TryFrom<&str>>::try_from")
    if from_s is not None:
        bwd = {}
        for bi, t in from_s.calls():
            nm = callee_names(t["func"])
            if nm and nm[0] == "std::cmp::PartialEq::eq":
                s = None
                for a in t["args"]:
                    s = s or from_s.op_str(a)
                sw = bool_switch(from_s, bi)
                if s is None or not sw:
                    continue
                # blocks reachable from the true edge before any other string comparison: find the Codec aggregate
                seen = set()
                st_ = [sw[2]]
                var = None
                while st_ and var is None:
                    x = st_.pop()
                    if x in seen:
                        continue
                    seen.add(x)
                    for st in from_s.blocks[x]["stmts"]:
                        if st["s"] == "assign" and st["rv"]["r"] == "agg" and st["rv"].get("adt") == "codec::Codec":
                            var = st["rv"]["variant"]
                    if var is None:
                        st_.extend(from_s.succ[x])
                bwd[s] = var
        inv = dict((v, k) for k, v in fwd.items())
        rep.ob("C04.R4", "name -> Codec table is the inverse of Codec -> name", bwd == inv, "parse table %s vs inverse of print table %s" % (bwd, inv), from_s.loc())
    cv = get(prog, rep, "C04.R4", "codec::<impl std::convert::From<codec::Codec> for types::Value>::from")
    if cv is not None:
        c = [t for bi, t in cv.calls() if callee_names(t["func"])[-1] == "codec::<impl std::convert::From<codec::Codec> for &'static str>::from"]
        agg = [st for _, _, st in cv.stmts() if st["s"] == "assign" and st["rv"]["r"] == "agg" and st["rv"].get("variant") == "Bytes"]
        rep.ob("C04.R4", "the header's codec value is Value::Bytes of the codec's name", len(c) == 1 and len(agg) == 1, "", cv.loc())

    # ------------------------------------------------------------------ R3 (writer side) imported from C03.R3
    import c03
    sub = common.Report("C03", tier, 0)
    c03.run(sub, tier=tier, collect_only=True)
    n3 = 0
    for o in sub.obligations:
        if o["rule"] in ("C03.R3", "C03.R8"):
            n3 += 1
            rep.ob("C04.R3", "[%s] " % o["rule"] + o["instance"], o["ok"], o["detail"], o["loc"])
    rep.floor("C04.R3", "imported flush obligations (one block per flush, written once, reset afterwards)", n3, 7)

    # ------------------------------------------------------------------ R5 rejection inventory
    rep.rule("C04.R5", "closed inventory of the reasons for which the container reader itself rejects a file")
    with open(os.path.join(common.VERIF, "rules", "tables", "c04_rejections.toml"), "rb") as fh:
        rej = tomllib.load(fh)["fn"]
    from mir import rv_operands
    n_rej = 0
    for fn in sorted(rej):
        b = get(prog, rep, "C04.R5", fn)
        if b is None:
            continue
        found = {}
        for body in prog.with_closures(b):
            for bi, si, st in body.stmts():
                if st["s"] != "assign":
                    continue
                rv = st["rv"]
                if rv["r"] == "agg" and rv.get("adt") == "error::Details":
                    found.setdefault(rv["variant"], body.loc(bi, st.get("ln")))
                for o in rv_operands(rv):
                    if o.get("k") == "const" and o.get("ctor", "").startswith("error::Details::"):
                        found.setdefault(o["ctor"].split("::")[-1], body.loc(bi, st.get("ln")))
            for bi, t in body.calls():
                for a in t["args"]:
                    if a.get("k") == "const" and a.get("ctor", "").startswith("error::Details::"):
                        found.setdefault(a["ctor"].split("::")[-1], body.loc(bi))
        for v, loc in sorted(found.items()):
            n_rej += 1
            rep.ob("C04.R5", "%s rejects with %s: listed" % (fn.split("::")[-1], v), v in rej[fn],
                   "a new reason to reject a file (Details::%s): a spec-conforming file written by another implementation must never take it; justify it in rules/tables/c04_rejections.toml" % v, loc)
    rep.floor("C04.R5", "rejection sites in the container reader", n_rej, 20)

    rep.floor("C04", "obligations", len(rep.obligations), 40)
    rep.not_decided = ["that an independent implementation reads the bytes (payload formats are the codec crates': C15 decides only the pairing)",
                       "values, schema text and metadata of concrete files (needs execution; C01/C02/C10 decide their structural parts)",
                       "multi-block metadata maps written by other implementations (accepted structurally through decode(): C02.R2)"]
    return common.finish(rep, level="other",
                         explanation="constant evaluation (magic, key literals, codec-name tables) and dominance ordering of the header/block writes and reads, writer vs reader vs the specification constants in rules/tables/spec_container.toml",
                         assumptions=["[u8; N] / Vec<u8> equality compares all bytes", "encode()/decode() of map<bytes> is C01/C02's clause"], evidence_dir=evidence_dir)
