"""C08 — reading with a different reader schema follows the specification's resolution rules.

Structural clauses decided:
 R1 promotion table   for every non-composite reader shape R the set of writer-side Value variants for which
                      Value::resolve_internal has a success path equals the specification's table
                      (tables/spec_resolution.toml): every listed promotion is implemented, and nothing else resolves
                      ("where the rules give no result an error is returned instead of a value"). The same-type cell
                      succeeds unconditionally or conditionally, never "never".
 R2 dispatch totality every reader shape dispatches to a resolver.
 R3 record resolution in resolve_record the written value is looked up by the reader field's name and, failing that, by the
                      reader field's aliases; only when both fail is the reader's default consulted, and a field with
                      neither is an error (GetField); the result is built by iterating the reader's fields (reader order).
 R4 enum resolution   resolve_enum is given the reader's symbols and the reader's enum default (not the field default) at
                      both call sites.
Not decided: union branch selection, default values, idempotence, `validate(resolved, R)` for concrete values.
"""
import os
import tomllib
import facts as factsmod
from mir import Program, callee_names, op_local, calls_named, edge_only_region
from mir import result_edges as result_edges_
import common
import restab


def run(rep, tier="quick", replay=None, evidence_dir=None, collect_only=False):
    prog = Program(factsmod.extract())
    rep.rule("C08.R1", "per reader shape, exactly the specification's promotions resolve")
    rep.rule("C08.R2", "every reader shape has a resolver")
    rep.rule("C08.R3", "record resolution: by name, then by reader alias, then default, else error; reader field order")
    rep.rule("C08.R4", "enum resolution uses the reader's symbols and the reader's enum default")
    T = restab.table(prog)
    with open(os.path.join(common.VERIF, "rules", "tables", "spec_resolution.toml"), "rb") as fh:
        spec = tomllib.load(fh)["reader"]
    rep.analysed["reader shapes dispatched"] = len(T["dispatch"])
    rep.analysed["(value, reader shape) cells"] = len(T["cells"])
    rep.floor("C08.R2", "reader shapes", len(T["dispatch"]), 28)
    for R, callee in sorted(T["dispatch"].items()):
        rep.ob("C08.R2", "reader shape %s dispatches to a resolver" % R, callee is not None, "no resolve_* call returns the result for this shape", "")
    n = 0
    for R in sorted(spec):
        want = set(spec[R]["spec"])
        cells = {}
        for (V, r), c in T["cells"].items():
            if r.split("(")[0] != R:
                continue
            if V in cells and cells[V]["cls"] != c["cls"]:
                c = dict(c, cls="maybe")
            cells[V] = c
        if not cells:
            rep.ob("C08.R1", "reader shape %s has a resolver table" % R, False, "no cells extracted for %s" % R, "")
            continue
        for V in T["values"]:
            c = cells.get(V)
            if c is None:
                continue
            n += 1
            acc = c["cls"] != "never"
            if V in want:
                rep.ob("C08.R1", "%s data resolves against a %s reader" % (V, R), acc,
                       "the specification lets a %s reader read %s data but %s has no success path for it" % (R, V, c["callee"].split("::")[-1]), c["loc"])
            else:
                rep.ob("C08.R1", "%s data does not resolve against a %s reader" % (V, R), not acc,
                       "%s turns Value::%s into a %s although the specification's resolution rules give no result for that pair (an error is required); builds %s" % (c["callee"].split("::")[-1], V, R, c["builds"]), c["loc"])
    rep.analysed["table cells compared with the specification"] = n
    rep.floor("C08.R1", "cells compared", n, 500)

    # ---------------------------------------------------------------- R3
    rr = prog.bodies.get("types::Value::resolve_record")
    if rr is None:
        rep.anchor_error("C08.R3", "types::Value::resolve_record")
    else:
        fam = prog.with_closures(rr)
        removes = []
        for b in fam:
            for bi, t in calls_named(b, "std::collections::HashMap::<K, V, S, A>::remove"):
                removes.append((b, bi, t))
        by_name = [x for x in removes if "name" in x[0].opdesc(x[2]["args"][1])]
        by_alias = [x for x in removes if x[0].kind == "Closure" and x[0].parent != "types::Value::resolve_record" or ("alias" in x[0].opdesc(x[2]["args"][1]))]
        rep.ob("C08.R3", "resolve_record looks the written value up by the reader field's name", len(by_name) >= 1, "", rr.loc())
        alias_iter = any(any("aliases" in b.opdesc(a) for a in t["args"] if a.get("k") in ("copy", "move")) for b in fam for bi, t in b.calls())
        rep.ob("C08.R3", "resolve_record falls back to the reader field's aliases", alias_iter and len(removes) >= 2,
               "a field the writer knows under one of the reader's aliases is not found: its value is dropped and the reader's default (or an error) takes its place", rr.loc())
        gf = any(st["s"] == "assign" and st["rv"]["r"] == "agg" and st["rv"].get("adt") == "error::Details" and st["rv"].get("variant") == "GetField" for b in fam for _, _, st in b.stmts())
        rep.ob("C08.R3", "a reader field with neither a written value nor a default is an error", gf, "", rr.loc())
        it = [t for bi, t in calls_named(rr, "core::slice::<impl [T]>::iter") if rr.opdesc(t["args"][0]).startswith("fields")]
        rep.ob("C08.R3", "the result is built by iterating the reader's fields", len(it) >= 1 and len(calls_named(rr, "std::iter::Iterator::collect")) >= 1, "", rr.loc())
        dflt = any(any("default" in b.opdesc(a) for a in t["args"] if a.get("k") in ("copy", "move")) or any(
            st["s"] == "assign" and st["rv"]["r"] == "discr" and "default" in b.pldesc(st["rv"]["pl"]) for _, _, st in b.stmts()) for b in fam for bi, t in b.calls())
        rep.ob("C08.R3", "the reader field's default is consulted when nothing was written", dflt, "", rr.loc())
        # order: name, then aliases, then - only then - the default
        per_field = [x for x in by_name if x[0].kind == "Closure"]
        if rep.ob("C08.R3", "the name lookup happens in the per-field closure of resolve_record", len(per_field) == 1, "found %d" % len(per_field), rr.loc()):
            cb, nbi, _ = per_field[0]

            def mentions_aliases(body, depth=0):
                if any(any("aliases" in body.opdesc(a) for a in t["args"] if a.get("k") in ("copy", "move")) for _, t in body.calls()):
                    return True
                if depth < 3:
                    for _, _, st in body.stmts():
                        if st["s"] == "assign" and st["rv"]["r"] == "agg" and st["rv"].get("ak") == "closure" and st["rv"].get("def") in prog.bodies:
                            if mentions_aliases(prog.bodies[st["rv"]["def"]], depth + 1):
                                return True
                return False
            alias_sites = []
            for bi, t in cb.calls():
                direct = any("aliases" in cb.opdesc(a) for a in t["args"] if a.get("k") in ("copy", "move"))
                via = False
                for a in t["args"]:
                    if a.get("k") in ("copy", "move") and not a["pl"]["p"]:
                        sd = cb.single_def(a["pl"]["l"])
                        if sd and sd[2] == "assign" and sd[3]["r"] == "agg" and sd[3].get("ak") == "closure" and sd[3].get("def") in prog.bodies:
                            via = via or mentions_aliases(prog.bodies[sd[3]["def"]])
                if direct or via:
                    alias_sites.append(bi)
            dreads = [bi for bi, _, st in cb.stmts() if st["s"] == "assign" and st["rv"]["r"] == "discr" and cb.pldesc(st["rv"]["pl"]).endswith("field.default")]
            rep.ob("C08.R3", "the alias lookup follows the name lookup", bool(alias_sites) and all(cb.dominates(nbi, a) and a != nbi for a in alias_sites), "alias lookup at %s" % [cb.loc(a) for a in alias_sites], cb.loc(nbi))
            # the default must be unreachable once the alias lookups are cut out of the CFG (constants and freshly built
            # Option values are propagated, so `match name { Some(v) => Some(v), None => <alias loop> }` is understood)
            from shape import hyp_reach
            noalias = hyp_reach(cb, [0], lambda bi, t: None, stop=set(alias_sites))
            early = [d for d in dreads if d in noalias and d not in alias_sites]
            rep.ob("C08.R3", "the reader field's default is looked at only after the alias lookup (a written value wins over the default)",
                   bool(dreads) and bool(alias_sites) and not early,
                   "a field the writer wrote under one of the reader's aliases is replaced by the reader's default: default examined at %s without passing the alias lookup at %s" % ([cb.loc(d) for d in early], [cb.loc(a) for a in alias_sites]), cb.loc(dreads[0]) if dreads else cb.loc())
    # ---------------------------------------------------------------- R4
    sites = []
    for b in prog.by_crate["apache_avro"]:
        for bi, t in calls_named(b, "types::Value::resolve_enum"):
            sites.append((b, bi, t))
    rep.floor("C08.R4", "resolve_enum call sites", len(sites), 3)
    for b, bi, t in sites:
        a = [b.opdesc(x) for x in t["args"]]
        owner = b.path if b.kind != "Closure" else b.parent
        if owner.startswith("schema::parser"):
            continue   # parse-time check of the enum's own default
        rep.ob("C08.R4", "%s passes the reader's symbols and the reader's enum default" % owner, a[1].endswith("Enum.0.symbols") and a[2].endswith("Enum.0.default") and a[1].rsplit(" as ", 1)[0] == a[2].rsplit(" as ", 1)[0],
               "resolve_enum(%s)" % ", ".join(a), b.loc(bi))
    re_ = prog.bodies.get("types::Value::resolve_enum")
    if re_ is not None:
        # the fallback for an unknown symbol is the enum's default parameter (arg 3), not the field default (arg 4)
        from mir import local_uses
        p4 = [i for i in range(1, re_.argc + 1) if "field_default" in (re_.local_name(i) or "")]
        uses4 = any(local_uses(re_, i) for i in p4)
        for ch in prog.children.get(re_.key, []):
            for u in ch.raw.get("upvars", []):
                if "field_default" in u["name"]:
                    uses4 = True
        rep.ob("C08.R4", "resolve_enum does not fall back to the enclosing field's default for an unknown symbol", not uses4,
               "the specification's fallback for an unknown symbol is the reader *enum's* default; using the record field's default invents a value where an error is required", re_.loc())

    # ---------------------------------------------------------------- R5 union branch selection is by type
    rep.rule("C08.R5", "resolve_union resolves the value against the branch found by type (find_schema_with_known_schemata), never by the writer's branch position")
    ru = prog.bodies.get("types::Value::resolve_union")
    if ru is None:
        rep.anchor_error("C08.R5", "types::Value::resolve_union")
    else:
        fnd = calls_named(ru, "schema::union::UnionSchema::find_schema_with_known_schemata")
        res = []
        for b in prog.with_closures(ru):
            res += [(b, bi, t) for bi, t in calls_named(b, "types::Value::resolve_internal")]
        ok = len(fnd) == 1 and len(res) >= 1
        bad = []
        if ok:
            from mir import forward_taint
            tainted = forward_taint(ru, [fnd[0][1]["dest"]["l"]], through_calls=True)
            for b, bi, t in res:
                a = t["args"][1]
                if b is not ru or op_local(a) not in tainted:
                    bad.append(b.loc(bi))
            # no positional lookup of a branch
            pos = [bi for bi, t in ru.calls() if callee_names(t["func"])[0].endswith(("UnionSchema::get_variant", "UnionSchema::variants")) or
                   (callee_names(t["func"])[0] == "core::slice::<impl [T]>::get" and "Schema" in str(t["func"].get("ga")))]
            if pos:
                bad.append("positional branch lookup at " + ru.loc(pos[0]))
        rep.ob("C08.R5", "every branch resolve_union resolves against comes from the by-type lookup", ok and not bad,
               "branch taken from elsewhere: %s (a writer union that is not position-compatible with the reader union is then read into the wrong branch)" % bad, ru.loc())

    # ---------------------------------------------------------------- R6 the "same schema, nothing to resolve" shortcut
    rep.rule("C08.R6", "the container reader skips resolution only for schemas its structural comparison proves equal: different shapes never compare equal, sequences are compared in full")
    from vpes import Vpes, pair_shapes
    cmpb = prog.bodies.get("<schema_equality::StructFieldEq as schema_equality::SchemataEq>::compare")
    if cmpb is None:
        cands = [b for k, b in prog.bodies.items() if k.endswith("::compare") and "StructFieldEq" in k and b.kind != "Closure"]
        cmpb = cands[0] if len(cands) == 1 else None
    if cmpb is None:
        rep.anchor_error("C08.R6", "StructFieldEq::compare")
    else:
        vp = Vpes(prog, cmpb, {2: "schema::Schema", 3: "schema::Schema"})
        ncell = 0
        same = {}
        for sg, reg in pair_shapes(vp, 2, 3):
            v1, v2 = sg[(2, ())], sg[(3, ())]
            if isinstance(v1, (set, frozenset, list, tuple)) or isinstance(v2, (set, frozenset, list, tuple)):
                continue
            outs = set()
            for bi in reg:
                for st in cmpb.blocks[bi]["stmts"]:
                    if st["s"] == "assign" and st["pl"]["l"] == 0 and not st["pl"]["p"]:
                        rv = st["rv"]
                        if rv["r"] == "use" and rv["o"].get("k") == "const" and "int" in rv["o"]:
                            outs.add(rv["o"]["int"])
                        else:
                            outs.add("computed")
                t = cmpb.blocks[bi]["term"]
                if t["t"] == "call" and t["dest"]["l"] == 0 and not t["dest"]["p"]:
                    outs.add("computed")
            ncell += 1
            if v1 != v2:
                rep.ob("C08.R6", "StructFieldEq: a %s schema never compares equal to a %s schema" % (v1, v2), outs <= {0} and bool(outs),
                       "the comparison can answer %s for schemas of different kinds; the container reader then hands out unresolved values" % sorted(map(str, outs)), cmpb.loc())
            else:
                same.setdefault(v1, set()).update(outs)
        for v1, outs in sorted(same.items()):
            rep.ob("C08.R6", "StructFieldEq: two %s schemas can compare equal" % v1, bool(outs - {0}), "", cmpb.loc())
        rep.floor("C08.R6", "shape pairs of the structural comparison", ncell, 700)
    zips = []
    for k, b in prog.bodies.items():
        if b.crate == "apache_avro" and b.file.endswith("schema_equality.rs"):
            for bi, t in calls_named(b, "std::iter::Iterator::zip"):
                zips.append((b, bi, t))

    def seq_of(b, op):
        # the sequence an iterator operand walks: iter(X) / into_iter(X) -> description of X
        cr = b.call_result_of(op)
        if cr and cr[1]["args"]:
            return b.opdesc(cr[1]["args"][0])
        return b.opdesc(op)
    for b, bi, t in zips:
        x, y = seq_of(b, t["args"][0]), seq_of(b, t["args"][1])
        guarded = False
        for _, si, st in b.stmts():
            pass
        for gbi in range(b.n):
            for st in b.blocks[gbi]["stmts"]:
                if st["s"] == "assign" and st["rv"]["r"] == "bin" and st["rv"]["op"] in ("Eq", "Ne") and not st["pl"]["p"]:
                    sides = []
                    for o in (st["rv"]["a"], st["rv"]["b"]):
                        cr = b.call_result_of(o)
                        if cr and callee_names(cr[1]["func"])[0].endswith("::len") and cr[1]["args"]:
                            sides.append(b.opdesc(cr[1]["args"][0]))
                    if sorted(sides) == sorted([x, y]):
                        from shape import bool_switch
                        sw = bool_switch(b, st["pl"]["l"])
                        same_t = (sw[2] if st["rv"]["op"] == "Eq" else sw[1]) if sw else None
                        diff_t = (sw[1] if st["rv"]["op"] == "Eq" else sw[2]) if sw else None
                        if sw and same_t is not None and same_t != diff_t and b.dominates(same_t, bi) and edge_only_region(b, sw[0], same_t) is not None:
                            guarded = True
        rep.ob("C08.R6", "%s: zip(%s, %s) is guarded by a comparison of their lengths" % (b.path, x, y), guarded,
               "Iterator::zip stops at the shorter sequence: a schema whose list is a prefix of the other's compares equal, and the container reader then skips resolution", b.loc(bi))
    rep.floor("C08.R6", "zip comparisons in schema_equality", len(zips), 2)
    rb = [b for k, b in prog.bodies.items() if b.crate == "apache_avro" and b.path.startswith("reader::Reader") and any(
        st["s"] == "assign" and "should_resolve_schema" in b.pldesc(st["pl"]) and st["pl"]["p"] for _, _, st in b.stmts())]
    for b in rb:
        # the flag is computed by a `!=` of writer and reader schema
        srcs = [bi for fam in prog.with_closures(b) for bi, t in fam.calls() if callee_names(t["func"])[0] in ("std::cmp::PartialEq::ne", "std::cmp::PartialEq::eq") and "Schema" in str(t["func"].get("ga"))]
        rep.ob("C08.R6", "%s derives should_resolve_schema from a comparison of the writer and the reader schema" % b.path, len(srcs) >= 1, "", b.loc())
    rep.floor("C08.R6", "functions that compute should_resolve_schema", len(rb), 1)
    # ---------------------------------------------------------------- R7 / R8 the result validates; resolving again changes nothing
    rep.rule("C08.R7", "for every non-composite reader shape the variant a resolver builds on its success paths is one validation accepts for that shape")
    rep.rule("C08.R8", "for every non-composite reader shape the resolved variant resolves again against the same shape into the same variant (idempotence at shape level)")
    import wiretab
    VT = wiretab.tables(prog)["val"]
    RTc = restab.table(prog)["cells"]
    COMPOSITE = {"Array", "Map", "Record", "Union", "Ref"}
    by_r = {}
    for (V_, R_), c_ in RTc.items():
        if c_["cls"] != "never" and R_.split("(")[0] not in COMPOSITE:
            by_r.setdefault(R_, {}).setdefault("builds", set()).update(c_["builds"])
            by_r[R_]["loc"] = c_["loc"]
    n7 = 0
    for R_, d_ in sorted(by_r.items()):
        base = R_.split("(")[0]
        for b_ in sorted(d_["builds"]):
            n7 += 1
            vc = VT.get((b_, R_)) or VT.get((b_, base))
            rep.ob("C08.R7", "resolving against %s builds Value::%s, which validates against %s" % (R_, b_, R_), vc is not None and vc["cls"] != "never",
                   "the resolver hands out a Value::%s for a %s reader, validate_internal has no accepting path for that pair: the resolved value does not conform to the reader schema" % (b_, R_), d_["loc"])
            rc = RTc.get((b_, R_)) or RTc.get((b_, base))
            rep.ob("C08.R8", "a Value::%s resolved against %s resolves again into the same variant" % (b_, R_), rc is not None and rc["cls"] != "never" and set(rc["builds"]) <= {b_},
                   "resolving the already resolved value %s" % ("fails" if rc is None or rc["cls"] == "never" else "builds %s" % rc["builds"]), d_["loc"])
    rep.floor("C08.R7", "non-composite reader shapes x built variants", n7, 25)
    # ---------------------------------------------------------------- R9 arrays and maps: every item, with the reader's item schema
    rep.rule("C08.R9", "resolve_array / resolve_map resolve every item against the reader's item schema, keep map keys, drop nothing and propagate the first error")
    DROPPING = ("filter", "filter_map", "flat_map", "flatten", "take", "take_while", "skip", "skip_while", "step_by")
    ri_ = prog.bodies.get("types::Value::resolve_internal")
    for fn, field in (("types::Value::resolve_array", "items"), ("types::Value::resolve_map", "types")):
        b0 = prog.bodies.get(fn)
        if b0 is None or ri_ is None:
            rep.anchor_error("C08.R9", fn)
            continue
        fam = prog.with_closures(b0)
        inner = [(bb, bi, t) for bb in fam for bi, t in calls_named(bb, "types::Value::resolve_internal")]
        okc = len(inner) == 1 and inner[0][0].kind == "Closure"
        rep.ob("C08.R9", "%s resolves each item with one resolve_internal call inside the per-item closure" % fn.split("::")[-1], okc, "found %d calls" % len(inner), b0.loc())
        if okc:
            bb, bi, t = inner[0]
            rep.ob("C08.R9", "%s: items are resolved against the schema the function was given" % fn.split("::")[-1], bb.opdesc(t["args"][1]).endswith("schema"), "resolves against %s" % bb.opdesc(t["args"][1]), bb.loc(bi))
        drops = [callee_names(t["func"])[0].split("::")[-1] for bb in fam for _, t in bb.calls() if callee_names(t["func"])[0].startswith("std::iter::Iterator::") and callee_names(t["func"])[0].split("::")[-1] in DROPPING]
        okres = [1 for bb in fam for _, t in bb.calls() if callee_names(t["func"])[0].endswith(("Result::<T, E>::ok", "Result::<T, E>::unwrap_or", "Result::<T, E>::unwrap_or_default", "Result::<T, E>::unwrap_or_else"))]
        rep.ob("C08.R9", "%s drops no item and swallows no item error" % fn.split("::")[-1], not drops and not okres, "adapters %s, error-swallowing calls %d" % (drops, len(okres)), b0.loc())
        col = calls_named(b0, "std::iter::Iterator::collect")
        from shape import err_edge_only_err
        rep.ob("C08.R9", "%s: the collected result is propagated with its error" % fn.split("::")[-1], len(col) == 1 and "Result<" in str(col[0][1]["func"].get("ga")) and len(result_edges_(b0, col[0][1]["dest"]["l"])) == 1, "", b0.loc())
        # call site in resolve_internal hands the reader's item schema
        sites = calls_named(ri_, fn)
        rep.ob("C08.R9", "resolve_internal hands %s the reader schema's `%s`" % (fn.split("::")[-1], field), len(sites) >= 1 and all(field in ri_.opdesc(t["args"][1]) for _, t in sites),
               "passes %s" % [ri_.opdesc(t["args"][1]) for _, t in sites], ri_.loc(sites[0][0]) if sites else ri_.loc())
    if prog.bodies.get("types::Value::resolve_map") is not None:
        mfam = prog.with_closures(prog.bodies["types::Value::resolve_map"])
        # the key of each entry is passed through unchanged: the per-entry closure builds (key, value) from its own key
        keyok = False
        for bb in mfam:
            if bb.kind != "Closure":
                continue
            for _, _, st in bb.stmts():
                if st["s"] == "assign" and st["rv"]["r"] == "agg" and st["rv"].get("ak") == "tuple" and len(st["rv"]["ops"]) == 2 and "key" in bb.opdesc(st["rv"]["ops"][0]):
                    keyok = True
        rep.ob("C08.R9", "resolve_map keeps each entry's key", keyok, "", prog.bodies["types::Value::resolve_map"].loc())
    # ---------------------------------------------------------------- R10 no lossy conversion on the value path
    rep.rule("C08.R10", "where a conversion can fail the failure is reported: no lossy substitute (from_utf8_lossy, unchecked conversions) in decoding, resolution and the serde readers")
    LOSSY = ("from_utf8_lossy", "to_string_lossy", "from_utf8_unchecked", "from_utf16_lossy")
    lossy = []
    nscan = 0
    for k_, b_ in sorted(prog.bodies.items()):
        if b_.crate != "apache_avro" or not b_.file.startswith(("avro/src/types.rs", "avro/src/decode.rs", "avro/src/reader/", "avro/src/serde/", "avro/src/bigdecimal.rs", "avro/src/decimal.rs", "avro/src/util.rs")):
            continue
        nscan += 1
        for bi, t in b_.calls():
            nm_ = callee_names(t["func"])
            if nm_ and nm_[0].split("::")[-1] in LOSSY:
                lossy.append((b_, bi, nm_[0]))
    for b_, bi, n_ in lossy:
        rep.ob("C08.R10", "%s does not call %s" % (b_.path if b_.kind != "Closure" else b_.parent, n_.split("::")[-1]), False,
               "bytes that are not a valid string are turned into a different string (replacement characters) instead of an error: where the resolution rules give no result a value is returned", b_.loc(bi))
    rep.ob("C08.R10", "no lossy conversion call on the value path", not lossy, "%d call(s)" % len(lossy), "")
    rep.floor("C08.R10", "functions scanned on the value path", nscan, 600)

    if collect_only:
        return rep
    rep.floor("C08", "obligations", len(rep.obligations), 500)
    rep.not_decided = ["union branch selection by type, default values, idempotence, validate(resolved, R): value-level, need execution",
                       "logical-type *values* read with a reader of the underlying type (date -> long ...): demanded by C09.R1 where the compatibility checker promises it"]
    return common.finish(rep, level="other",
                         explanation="variant-partitioned path summaries of Value::resolve_internal and each resolve_* (per writer Value variant: success path / error only / built variant) compared cell by cell with the specification's promotion table; call/def-use shape of resolve_record and resolve_enum",
                         assumptions=["rules/tables/spec_resolution.toml transcribes the specification's promotion rules"], evidence_dir=evidence_dir)
