"""C08 — reading with a different reader schema follows the specification's resolution rules.

Structural clauses decided:
 R1 promotion table   for every non-composite reader shape R the set of writer-side Value variants for which
                      Value::resolve_internal has a success path equals the specification's table
                      (tables/spec_resolution.toml): every listed promotion is implemented, and nothing else resolves
                      ("where the rules give no result an error is returned instead of a value"). The same-type cell
                      succeeds unconditionally or conditionally, never "never".
 R2 dispatch totality every reader shape dispatches to a resolver.
 R3 record resolution in resolve_record the written value is looked up by the reader field's name and, failing that, by the
                      reader field's aliases; only when both fail is the reader's default consulted, and a field with
                      neither is an error (GetField); the result is built by iterating the reader's fields (reader order).
 R4 enum resolution   resolve_enum is given the reader's symbols and the reader's enum default (not the field default) at
                      both call sites.
Not decided: union branch selection, default values, idempotence, `validate(resolved, R)` for concrete values.
"""
import os
import tomllib
import facts as factsmod
from mir import Program, callee_names, op_local, calls_named
import common
import restab


def run(rep, tier="quick", replay=None, evidence_dir=None):
    prog = Program(factsmod.extract())
    rep.rule("C08.R1", "per reader shape, exactly the specification's promotions resolve")
    rep.rule("C08.R2", "every reader shape has a resolver")
    rep.rule("C08.R3", "record resolution: by name, then by reader alias, then default, else error; reader field order")
    rep.rule("C08.R4", "enum resolution uses the reader's symbols and the reader's enum default")
    T = restab.table(prog)
    with open(os.path.join(common.VERIF, "rules", "tables", "spec_resolution.toml"), "rb") as fh:
        spec = tomllib.load(fh)["reader"]
    rep.analysed["reader shapes dispatched"] = len(T["dispatch"])
    rep.analysed["(value, reader shape) cells"] = len(T["cells"])
    rep.floor("C08.R2", "reader shapes", len(T["dispatch"]), 28)
    for R, callee in sorted(T["dispatch"].items()):
        rep.ob("C08.R2", "reader shape %s dispatches to a resolver" % R, callee is not None, "no resolve_* call returns the result for this shape", "")
    n = 0
    for R in sorted(spec):
        want = set(spec[R]["spec"])
        cells = {}
        for (V, r), c in T["cells"].items():
            if r.split("(")[0] != R:
                continue
            if V in cells and cells[V]["cls"] != c["cls"]:
                c = dict(c, cls="maybe")
            cells[V] = c
        if not cells:
            rep.ob("C08.R1", "reader shape %s has a resolver table" % R, False, "no cells extracted for %s" % R, "")
            continue
        for V in T["values"]:
            c = cells.get(V)
            if c is None:
                continue
            n += 1
            acc = c["cls"] != "never"
            if V in want:
                rep.ob("C08.R1", "%s data resolves against a %s reader" % (V, R), acc,
                       "the specification lets a %s reader read %s data but %s has no success path for it" % (R, V, c["callee"].split("::")[-1]), c["loc"])
            else:
                rep.ob("C08.R1", "%s data does not resolve against a %s reader" % (V, R), not acc,
                       "%s turns Value::%s into a %s although the specification's resolution rules give no result for that pair (an error is required); builds %s" % (c["callee"].split("::")[-1], V, R, c["builds"]), c["loc"])
    rep.analysed["table cells compared with the specification"] = n
    rep.floor("C08.R1", "cells compared", n, 500)

    # ---------------------------------------------------------------- R3
    rr = prog.bodies.get("types::Value::resolve_record")
    if rr is None:
        rep.anchor_error("C08.R3", "types::Value::resolve_record")
    else:
        fam = prog.with_closures(rr)
        removes = []
        for b in fam:
            for bi, t in calls_named(b, "std::collections::HashMap::<K, V, S, A>::remove"):
                removes.append((b, bi, t))
        by_name = [x for x in removes if "name" in x[0].opdesc(x[2]["args"][1])]
        by_alias = [x for x in removes if x[0].kind == "Closure" and x[0].parent != "types::Value::resolve_record" or ("alias" in x[0].opdesc(x[2]["args"][1]))]
        rep.ob("C08.R3", "resolve_record looks the written value up by the reader field's name", len(by_name) >= 1, "", rr.loc())
        alias_iter = any(any("aliases" in b.opdesc(a) for a in t["args"] if a.get("k") in ("copy", "move")) for b in fam for bi, t in b.calls())
        rep.ob("C08.R3", "resolve_record falls back to the reader field's aliases", alias_iter and len(removes) >= 2,
               "a field the writer knows under one of the reader's aliases is not found: its value is dropped and the reader's default (or an error) takes its place", rr.loc())
        gf = any(st["s"] == "assign" and st["rv"]["r"] == "agg" and st["rv"].get("adt") == "error::Details" and st["rv"].get("variant") == "GetField" for b in fam for _, _, st in b.stmts())
        rep.ob("C08.R3", "a reader field with neither a written value nor a default is an error", gf, "", rr.loc())
        it = [t for bi, t in calls_named(rr, "core::slice::<impl [T]>::iter") if rr.opdesc(t["args"][0]).startswith("fields")]
        rep.ob("C08.R3", "the result is built by iterating the reader's fields", len(it) >= 1 and len(calls_named(rr, "std::iter::Iterator::collect")) >= 1, "", rr.loc())
        dflt = any(any("default" in b.opdesc(a) for a in t["args"] if a.get("k") in ("copy", "move")) or any(
            st["s"] == "assign" and st["rv"]["r"] == "discr" and "default" in b.pldesc(st["rv"]["pl"]) for _, _, st in b.stmts()) for b in fam for bi, t in b.calls())
        rep.ob("C08.R3", "the reader field's default is consulted when nothing was written", dflt, "", rr.loc())
    # ---------------------------------------------------------------- R4
    sites = []
    for b in prog.by_crate["apache_avro"]:
        for bi, t in calls_named(b, "types::Value::resolve_enum"):
            sites.append((b, bi, t))
    rep.floor("C08.R4", "resolve_enum call sites", len(sites), 3)
    for b, bi, t in sites:
        a = [b.opdesc(x) for x in t["args"]]
        owner = b.path if b.kind != "Closure" else b.parent
        if owner.startswith("schema::parser"):
            continue   # parse-time check of the enum's own default
        rep.ob("C08.R4", "%s passes the reader's symbols and the reader's enum default" % owner, a[1].endswith("Enum.0.symbols") and a[2].endswith("Enum.0.default") and a[1].rsplit(" as ", 1)[0] == a[2].rsplit(" as ", 1)[0],
               "resolve_enum(%s)" % ", ".join(a), b.loc(bi))
    re_ = prog.bodies.get("types::Value::resolve_enum")
    if re_ is not None:
        # the fallback for an unknown symbol is the enum's default parameter (arg 3), not the field default (arg 4)
        from mir import local_uses
        p4 = [i for i in range(1, re_.argc + 1) if "field_default" in (re_.local_name(i) or "")]
        uses4 = any(local_uses(re_, i) for i in p4)
        for ch in prog.children.get(re_.key, []):
            for u in ch.raw.get("upvars", []):
                if "field_default" in u["name"]:
                    uses4 = True
        rep.ob("C08.R4", "resolve_enum does not fall back to the enclosing field's default for an unknown symbol", not uses4,
               "the specification's fallback for an unknown symbol is the reader *enum's* default; using the record field's default invents a value where an error is required", re_.loc())

    # ---------------------------------------------------------------- R5 union branch selection is by type
    rep.rule("C08.R5", "resolve_union resolves the value against the branch found by type (find_schema_with_known_schemata), never by the writer's branch position")
    ru = prog.bodies.get("types::Value::resolve_union")
    if ru is None:
        rep.anchor_error("C08.R5", "types::Value::resolve_union")
    else:
        fnd = calls_named(ru, "schema::union::UnionSchema::find_schema_with_known_schemata")
        res = []
        for b in prog.with_closures(ru):
            res += [(b, bi, t) for bi, t in calls_named(b, "types::Value::resolve_internal")]
        ok = len(fnd) == 1 and len(res) >= 1
        bad = []
        if ok:
            from mir import forward_taint
            tainted = forward_taint(ru, [fnd[0][1]["dest"]["l"]], through_calls=True)
            for b, bi, t in res:
                a = t["args"][1]
                if b is not ru or op_local(a) not in tainted:
                    bad.append(b.loc(bi))
            # no positional lookup of a branch
            pos = [bi for bi, t in ru.calls() if callee_names(t["func"])[0].endswith(("UnionSchema::get_variant", "UnionSchema::variants")) or
                   (callee_names(t["func"])[0] == "core::slice::<impl [T]>::get" and "Schema" in str(t["func"].get("ga")))]
            if pos:
                bad.append("positional branch lookup at " + ru.loc(pos[0]))
        rep.ob("C08.R5", "every branch resolve_union resolves against comes from the by-type lookup", ok and not bad,
               "branch taken from elsewhere: %s (a writer union that is not position-compatible with the reader union is then read into the wrong branch)" % bad, ru.loc())

    rep.floor("C08", "obligations", len(rep.obligations), 500)
    rep.not_decided = ["union branch selection by type, default values, idempotence, validate(resolved, R): value-level, need execution",
                       "logical-type *values* read with a reader of the underlying type (date -> long ...): demanded by C09.R1 where the compatibility checker promises it"]
    return common.finish(rep, level="other",
                         explanation="variant-partitioned path summaries of Value::resolve_internal and each resolve_* (per writer Value variant: success path / error only / built variant) compared cell by cell with the specification's promotion table; call/def-use shape of resolve_record and resolve_enum",
                         assumptions=["rules/tables/spec_resolution.toml transcribes the specification's promotion rules"], evidence_dir=evidence_dir)
