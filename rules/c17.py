"""C17 — derived schemas match the type's serde representation.

Static analysis of *generated programs* (translation-validation style): corpus/gen.py emits types deriving serde's
Serialize/Deserialize and AvroSchema over the supported attribute combinations (all rename_all rules x tricky identifiers,
renames, skips, defaults, aliases, namespaces, nesting, recursion, repeated named types, unit enums); the crate is compiled
against the current tree (so the current derive macro expands it) with the fact extractor and is never run.
 R1 cross-derive agreement  for every corpus type the names in the *expanded* `AvroSchemaComponent::get_schema_in_ctxt` /
        `get_record_fields_in_ctxt` (record name, ordered field names, per-field Rust type, ordered enum symbols) equal the
        names in serde's expanded `Serialize::serialize` (struct name, ordered serialize_field/skip_field keys and value types,
        variant names by index). A field serde always skips does not appear in the schema; a field serde may skip
        (skip_serializing_if) does.
 R2 dedup guard   every derived named type looks itself up in `named_schemas` (contains) before building its schema, answers
        with a reference on the "seen" edge, and inserts its name before it asks its field types for their schemas (this is
        what makes recursive types terminate and repeated types come out as references: "the same on every call").
 R3 corpus compiles  every corpus type is accepted by the derive macro (a type that stops compiling is reported with rustc's error).
Not decided: schema validity beyond names and shape, JSON round trip, value round trips, container files.
"""
import facts as factsmod
from mir import Body, callee_names, op_local, edge_only_region
from wire import rpo
import common
import shape

AV = "apache_avro::AvroSchemaComponent"


def calls_rpo(b):
    for bi in rpo(b, set(range(b.n))):
        t = b.blocks[bi]["term"]
        if t["t"] == "call":
            yield bi, t, callee_names(t["func"])


def avro_side(b):
    """(name literal, [(field or symbol literal, rust type or None)...]) from an expanded get_schema_in_ctxt / get_record_fields_in_ctxt"""
    name = None
    items = []
    pending = None
    for bi, t, nm in calls_rpo(b):
        if not nm:
            continue
        n0 = nm[0]
        if n0.endswith("Name::new_with_enclosing_namespace") or n0.endswith("Name::new"):
            name = b.op_str(t["args"][0])
        elif n0 in ("std::string::ToString::to_string", "std::borrow::ToOwned::to_owned", "std::convert::From::from", "std::convert::Into::into") and t["args"]:
            lit = b.op_str(t["args"][0])
            if lit is not None:
                if pending is not None:
                    items.append((pending, None))
                pending = lit
        elif n0 == AV + "::get_schema_in_ctxt":
            ga = (t["func"].get("ga") or [None])[0]
            if pending is not None:
                items.append((pending, ga))
                pending = None
    if pending is not None:
        items.append((pending, None))
    if any(ty is not None for _, ty in items):
        # a record: every field literal is followed by the schema of its type; other literals (aliases, docs) are not names.
        # an alias literal sits between the name and the type: the name is the first literal of each group
        out = []
        group = []
        for lit, ty in items:
            group.append(lit)
            if ty is not None:
                out.append((group[0], ty))
                group = []
        items = out
    return name, items


def serde_side(b):
    sname = None
    fields = []
    variants = {}
    for bi, t, nm in calls_rpo(b):
        if not nm:
            continue
        n0 = nm[0]
        if n0.endswith("Serializer::serialize_struct"):
            sname = b.op_str(t["args"][1])
        elif n0.endswith("SerializeStruct::serialize_field"):
            ga = t["func"].get("ga") or [None, None]
            fields.append((b.op_str(t["args"][1]), ga[1] if len(ga) > 1 else None, "field"))
        elif n0.endswith("SerializeStruct::skip_field"):
            fields.append((b.op_str(t["args"][1]), None, "skip"))
        elif n0.endswith("Serializer::serialize_unit_variant"):
            sname = b.op_str(t["args"][1])
            idx = t["args"][2].get("int")
            variants[idx] = b.op_str(t["args"][3])
    # a field under skip_serializing_if appears twice (serialize_field on one edge, skip_field on the other): keep order, dedupe
    seen = []
    for k, ty, kind in fields:
        if k not in [x[0] for x in seen]:
            seen.append((k, ty))
        elif ty is not None:
            seen = [(a, ty if a == k and b_ is None else b_) for a, b_ in seen]
    return sname, seen, variants


def run(rep, tier="quick", replay=None, evidence_dir=None):
    size = "thorough" if tier == "thorough" else "quick"
    F = factsmod.extract_corpus(size)
    meta = F["_meta"]
    rep.rule("C17.R1", "names and types in the expanded AvroSchema derive = names and types in serde's expanded Serialize, per corpus type")
    rep.rule("C17.R2", "derived named types guard against repetition / recursion: contains -> Ref, insert before nested schemas")
    rep.rule("C17.R3", "every corpus type is accepted by the derive macro")
    rep.analysed["corpus types generated"] = meta["types"]
    rep.ob("C17.R3", "the corpus (%d types deriving Serialize, Deserialize, AvroSchema) compiles against the current tree" % meta["types"], meta["compile_ok"],
           "rustc: %s" % "; ".join(meta.get("compile_errors", []))[:600], "corpus/gen.py")
    if not meta["compile_ok"]:
        return common.finish(rep, level="other", explanation="corpus did not compile", evidence_dir=evidence_dir)
    bodies = dict((b["path"], Body(b, "corpus")) for b in F["avro_verif_corpus"]["bodies"])
    types = sorted(set(p[1:].split(" as ")[0] for p in bodies if p.startswith("<") and p.endswith(AV + ">::get_schema_in_ctxt")))
    rep.analysed["corpus types with an expanded AvroSchemaComponent impl"] = len(types)
    rep.floor("C17.R1", "corpus types analysed", len(types), 80 if size == "quick" else 250)
    n_fields = 0
    import derivecmp
    shapes_seen = {}
    for T in types:
        gs = bodies["<%s as %s>::get_schema_in_ctxt" % (T, AV)]
        ser = bodies.get("_::<impl _::_serde::Serialize for %s>::serialize" % T)
        if ser is None:
            rep.ob("C17.R1", "%s: serde's Serialize expansion found" % T, False, "", "")
            continue

        def ob(inst, ok, detail, T=T):
            rep.ob("C17.R1", inst, ok, detail, "corpus type %s" % T)
        n_fields += derivecmp.compare(T, gs, ser, ob)
        ashape = derivecmp.avro_shape(gs)
        shapes_seen[ashape[0]] = shapes_seen.get(ashape[0], 0) + 1
        if ashape[0] == "record":
            # get_record_fields_in_ctxt agrees with get_schema_in_ctxt
            rf = bodies.get("<%s as %s>::get_record_fields_in_ctxt" % (T, AV))
            if rf is not None:
                rs = derivecmp._entries(derivecmp.avro_events(rf))
                rep.ob("C17.R1", "%s: get_record_fields_in_ctxt lists the same fields as the schema" % T, [e[:2] for e in rs] == [e[:2] for e in ashape[2]], "%s vs %s" % (rs, ashape[2]), "corpus type %s" % T)
        # ---- R2: every named definition is guarded
        cont = [(bi, t) for bi, t, nm in calls_rpo(gs) if nm and nm[0].startswith("std::collections::HashSet") and nm[0].endswith("::contains")]
        ins = [(bi, t) for bi, t, nm in calls_rpo(gs) if nm and nm[0].startswith("std::collections::HashSet") and nm[0].endswith("::insert")]
        nested = [bi for bi, t, nm in calls_rpo(gs) if nm and nm[0] in (AV + "::get_schema_in_ctxt", AV + "::get_record_fields_in_ctxt")]
        # number of named definitions the expansion builds: its own (record / enum / named union) plus one per record branch
        ndef = 0
        if ashape[0] in ("record", "enum_or_empty"):
            ndef = 1
        elif ashape[0] == "union":
            ndef = (1 if ashape[1] is not None else 0) + sum(1 for v in ashape[2] if v[0] == "record")
        if ashape[0] in ("transparent", "unknown"):
            continue
        ok = len(cont) == ndef and len(ins) == ndef
        why = "named definitions %d, `contains` guards %d, registrations %d" % (ndef, len(cont), len(ins))
        if ok:
            for (cbi, ct), (ibi, it) in zip(cont, ins):
                sw = shape.call_bool_switch(gs, cbi)
                good = False
                if sw:
                    reg = edge_only_region(gs, sw[0], sw[2])
                    refs = [1 for x in (reg or []) for st in gs.blocks[x]["stmts"] if st["s"] == "assign" and st["rv"]["r"] == "agg" and st["rv"].get("variant") == "Ref"]
                    mine = [nb for nb in nested if gs.dominates(sw[1], nb)]
                    good = bool(refs) and gs.dominates(sw[1], ibi) and all(gs.dominates(ibi, nb) for nb in mine)
                if not good:
                    ok = False
                    why = "the guard at %s does not answer with a reference / register the name before nested schemas are built" % gs.loc(cbi)
        rep.ob("C17.R2", "%s: every named definition is looked up first (seen -> reference) and registered before nested schemas are built" % T, ok,
               "a recursive type would not terminate / a type used twice would define the same name twice (%s)" % why, "corpus type %s" % T)
    rep.analysed["schema shapes in the corpus"] = dict(shapes_seen)
    rep.analysed["field / symbol names compared"] = n_fields
    rep.floor("C17.R1", "names compared", n_fields, 250 if size == "quick" else 800)

    # ---------------------------------------------------------------- R4: defaults of skipped fields
    # A field serde skips is written from its schema default by SchemaAwareRecordFieldDefault. Every JSON default the parser
    # accepts for a schema shape must be writable: here for JSON *integer* numbers (`"default": 0`), which the parser accepts for
    # every numeric and date/time shape (Value::try_from gives Int/Long, which resolve to those shapes).
    rep.rule("C17.R4", "the writer of skipped fields' defaults accepts an integer JSON default for every numeric / date-time schema the parser accepts it for")
    from mir import Program
    from wire import Wire
    from vpes import key_shapes
    import restab
    prog = Program(factsmod.extract())
    fd = prog.bodies.get("<serde::ser_schema::record::field_default::SchemaAwareRecordFieldDefault<'v, 's> as serde::Serialize>::serialize")
    if fd is None:
        rep.anchor_error("C17.R4", "SchemaAwareRecordFieldDefault::serialize")
    else:
        w = Wire(prog)
        vp = w.vpes(fd)
        vp.extern_bool = {"serde_json::Number::is_i64": True, "serde_json::Number::is_u64": True, "serde_json::Number::is_f64": False, "serde_json::Number::as_f64": True,
                          "serde_json::Number::as_i64": True, "serde_json::Number::as_u64": True}
        vkey = [k for k in vp.keys() if k[0] == 1 and k[1] and k[1][0] == ".value"]
        skey = [k for k in vp.keys() if k[0] == 1 and k[1] and k[1][0] == ".schema"]
        if not rep.ob("C17.R4", "SchemaAwareRecordFieldDefault::serialize discriminates the JSON value and the schema", bool(vkey) and bool(skey), "keys %s" % vp.keys(), fd.loc()):
            pass
        else:
            RT = restab.table(prog)
            accepted = sorted(set(R.split("(")[0] for (V, R), c in RT["cells"].items() if V in ("Int", "Long") and c["cls"] == "always"))
            adt = prog.adt("schema::Schema")
            n4 = 0
            for S in accepted:
                if S not in [v["name"] for v in adt["variants"]]:
                    continue
                n4 += 1
                sig = {vkey[0]: "Number", skey[0]: S}
                reg = vp.region(sig)
                calls_ = [callee_names(fd.blocks[bi]["term"]["func"])[0] for bi in reg if fd.blocks[bi]["term"]["t"] == "call" and callee_names(fd.blocks[bi]["term"]["func"])]
                writes = [c for c in calls_ if ".serialize_" in c.replace("::", ".") and "Serializer" in c]
                rep.ob("C17.R4", "an integer JSON default is written for a %s field" % S, bool(writes),
                       "the parser accepts `\"default\": 0` for a %s field (an integer resolves to %s) but the default writer has no success path for an integer number there: a value whose field serde skips fails to serialize" % (S.lower(), S), fd.loc())
            rep.floor("C17.R4", "numeric / date-time shapes that accept an integer default", n4, 10)

    # ---------------------------------------------------------------- R5: wrapper impls pass on T's default only with T's schema
    # `impl AvroSchemaComponent for Box<T> / &T / [T; N] / ...`: when field_default() answers with T::field_default(), the schema
    # must be T's schema (get_schema_in_ctxt answers with T::get_schema_in_ctxt's result), otherwise the derived field carries a
    # default that does not conform to its schema. For const-generic impls the two functions are compared per hypothetical N.
    rep.rule("C17.R5", "a wrapper type hands on its parameter's field default only where it hands on the parameter's schema unchanged")
    from shape import hyp_reach
    n5 = 0
    SFX_D = " as serde::derive::AvroSchemaComponent>::field_default"
    SFX_S = " as serde::derive::AvroSchemaComponent>::get_schema_in_ctxt"

    def delegates(body, callee_suffix, hyp):
        """under the hypothesis: does the function return exactly the result of <param type>::<callee> on some path, and
        does it return anything else on some path"""
        reg = hyp_reach(body, [0], lambda bi, t: None, tyconst=hyp)
        direct = other = False
        for bi in reg:
            t = body.blocks[bi]["term"]
            if t["t"] == "call" and t["dest"]["l"] == 0 and not t["dest"]["p"]:
                nm = callee_names(t["func"])[0]
                ga = t["func"].get("ga") or []
                # the trait method called on a bare type parameter (T), not on a concrete or composite type
                if nm.endswith(callee_suffix) and len(ga) >= 1 and str(ga[0]).isidentifier():
                    direct = True
                else:
                    other = True
            for st in body.blocks[bi]["stmts"]:
                if st["s"] == "assign" and st["pl"]["l"] == 0 and not st["pl"]["p"]:
                    other = True
        return direct, other
    for k, bd in sorted(prog.bodies.items()):
        if not k.endswith(SFX_D) or bd.crate != "apache_avro":
            continue
        bs = prog.bodies.get(k[:-len(SFX_D)] + SFX_S)
        if bs is None:
            continue
        consts = sorted(set(o.get("tyconst") for bb in (bd, bs) for _, _, st in bb.stmts() if st["s"] == "assign" and st["rv"]["r"] == "bin"
                            for o in (st["rv"]["a"], st["rv"]["b"]) if o.get("k") == "const" and o.get("tyconst")))
        for bb in (bd, bs):
            for _, _, st in bb.stmts():
                if st["s"] == "assign" and st["rv"]["r"] == "use" and st["rv"]["o"].get("k") == "const" and st["rv"]["o"].get("tyconst") and st["rv"]["o"]["tyconst"] not in consts:
                    consts.append(st["rv"]["o"]["tyconst"])
            for x in range(bb.n):
                tt = bb.blocks[x]["term"]
                if tt["t"] == "switch" and tt["discr"].get("k") == "const" and tt["discr"].get("tyconst") and tt["discr"]["tyconst"] not in consts:
                    consts.append(tt["discr"]["tyconst"])
        hyps = [None]
        if consts:
            hyps = [dict((c, v) for c in consts) for v in (0, 1, 2, 3, 17)]
        for h in hyps:
            dd, do_ = delegates(bd, "AvroSchemaComponent::field_default", h)
            sd_, so_ = delegates(bs, "AvroSchemaComponent::get_schema_in_ctxt", h)
            if not dd:
                continue   # the wrapper answers with its own default (or none): nothing to pass on
            n5 += 1
            ty = k[1:-len(SFX_D)]
            rep.ob("C17.R5", "%s%s: the parameter's default is passed on only together with the parameter's schema" % (ty, (" with %s" % h) if h else ""), sd_ and not so_,
                   "field_default() answers with the parameter type's default while get_schema_in_ctxt() builds a different schema: a derived field of this type gets a default that does not conform to its schema (the derived schema cannot be parsed back / written to a file header)", bd.loc())
    rep.floor("C17.R5", "wrapper impls (x hypothetical const values) that pass on the parameter's default", n5, 5)

    # ---------------------------------------------------------------- R6: the union builder the derived code calls (C11.R1 instances)
    rep.rule("C17.R6", "the union builder that derived enum schemas are assembled with keeps its index tables and its branch list in step (C11.R1 instances)")
    import c11
    sub11 = common.Report("C11", tier, 0)
    c11.run(sub11, tier=tier, collect_only=True)
    n6 = 0
    for o in sub11.obligations:
        if o["rule"] == "C11.R1" and "UnionSchemaBuilder" in o["instance"] or (o["rule"] == "C11.R1" and o["instance"].startswith("variant")):
            n6 += 1
            rep.ob("C17.R6", "[C11.R1] " + o["instance"], o["ok"], o["detail"], o["loc"])
    rep.floor("C17.R6", "imported union-builder obligations", n6, 8)

    # ---------------------------------------------------------------- R7: the schema walks of the derive support reach every nested schema
    rep.rule("C17.R7", "the recursive schema walks the derive support relies on (first self-reference for flattened recursive types) descend into arrays, maps, unions and records")
    from wire import Wire as _W7
    w7 = _W7(prog)
    walkers = [b for k, b in prog.bodies.items() if b.crate == "apache_avro" and b.file.endswith("serde/derive.rs") and b.kind != "Closure" and any(k in callee_names(t["func"]) for _, t in b.calls())]
    n7 = 0
    for b7 in walkers:
        cov = shape.walk_coverage(prog, w7, b7)
        if cov is None:
            continue
        for S7, hit in sorted(cov.items()):
            n7 += 1
            rep.ob("C17.R7", "%s descends into %s schemas" % (b7.path.split("::")[-1], S7), hit,
                   "a self-reference (or nested definition) that only occurs inside a %s is not found: the flattened schema keeps a dangling reference and cannot be parsed back or written" % S7.lower(), b7.loc())
    rep.floor("C17.R7", "composite shapes x schema walks in the derive support", n7, 4)

    rep.not_decided = ["validity of the derived schema beyond names, order and field types (defaults, docs, namespaces of nested types)", "JSON round trip of the derived schema, value round trips, container files: need execution",
                       "run-time handling of skipped fields' defaults (serde::ser_schema::record::field_default)"]
    return common.finish(rep, level="other",
                         explanation="translation validation over a generated corpus: the AvroSchema derive's expansion and serde's expansion of the same type are compared name by name and type by type on the MIR of the expanded impls (corpus compiled against the current tree, never run)",
                         assumptions=["serde_derive's expansion is the reference for the type's serde representation", "the corpus generator covers the attribute combinations listed in corpus/gen.py"],
                         extra_cov={"programs": meta["types"], "corpus_size": size, "disagreements_checked": len(rep.obligations)}, evidence_dir=evidence_dir)
