"""resolver shape table for C08/C09: for every (writer Value variant V, reader schema shape R) how Value::resolve_internal answers"""
from mir import callee_names
from wire import Wire
from vpes import top_shapes

_cache = {}


def classify(body, reg):
    ok = own = prop = False
    deleg = []
    for bi in reg:
        for st in body.blocks[bi]["stmts"]:
            if st["s"] == "assign" and st["rv"]["r"] == "agg" and st["rv"].get("adt") == "std::result::Result":
                if st["rv"]["variant"] == "Ok":
                    ok = True
                else:
                    own = True
        t = body.blocks[bi]["term"]
        if t["t"] == "call":
            nm = callee_names(t["func"])
            if t["dest"]["l"] == 0 and not t["dest"]["p"]:
                if nm and nm[0].endswith("FromResidual::from_residual"):
                    prop = True
                else:
                    deleg.append(nm[-1] if nm else "?")
    return ok, own, prop, deleg


def table(prog):
    if id(prog) in _cache:
        return _cache[id(prog)]
    w = Wire(prog)
    ri = prog.body("types::Value::resolve_internal")
    vp = w.vpes(ri)
    sroot = [r for r, a in vp.roots.items() if a == "schema::Schema"][0]
    vroot = [r for r, a in vp.roots.items() if a == "types::Value"][0]
    values = vp.variants_of("types::Value")
    out = {"values": values, "dispatch": {}, "cells": {}}
    for s, reg in top_shapes(vp, sroot):
        R = vp.shape_name(s, sroot)
        # the resolve_* call that produces the result for this reader shape
        callee = None
        for bi in reg:
            t = ri.blocks[bi]["term"]
            if t["t"] == "call" and t["dest"]["l"] == 0 and not t["dest"]["p"]:
                nm = callee_names(t["func"])
                if nm and nm[-1].startswith("types::Value::resolve_") and nm[-1] in prog.bodies:
                    callee = nm[-1]
        out["dispatch"][R] = callee
        if callee is None or callee == "types::Value::resolve_internal":
            continue
        cb = prog.bodies[callee]
        cvp = w.vpes(cb)
        cv = [r for r, a in cvp.roots.items() if a == "types::Value"]
        if not cv:
            continue
        cv = cv[0]
        # nested reader info passed along (UuidSchema / InnerDecimalSchema) is discriminated inside the callee: fix it from R
        for V in values:
            for sg, creg in cvp.expand({(cv, ()): V}):
                # keep only expansions compatible with R's nested variant, when the callee discriminates it
                nested = [(k, v) for k, v in sg.items() if k[0] != cv]
                tag = R
                if nested:
                    tag = "%s(%s)" % (R, nested[0][1])
                ok, own, prop, deleg = classify(cb, creg)
                # values built on paths that can return Ok
                sm = w.summary(callee, sg)
                vals = sorted(set(v for a, v, o in sm["constructs"] if a == "types::Value" and o))
                cls = "never"
                if ok or deleg:
                    cls = "always" if not own and not prop and not deleg else "maybe"
                key = (V, tag)
                prev = out["cells"].get(key)
                cell = {"cls": cls, "builds": vals, "callee": callee, "deleg": deleg, "loc": cb.loc()}
                if prev:   # several nested expansions: merge conservatively
                    order = {"never": 0, "maybe": 1, "always": 2}
                    if prev["cls"] != cell["cls"]:
                        cell["cls"] = "maybe"
                    cell["builds"] = sorted(set(prev["builds"]) | set(vals))
                out["cells"][key] = cell
    _cache[id(prog)] = out
    return out
