"""C12 — Parsing Canonical Form and fingerprints follow the specification.

Structural clauses decided:
 R1 attribute table   kept attributes of pcf_map (= RESERVED_FIELDS minus the literals whose comparison edge
                      `continue`s without emitting) must be the specification's [STRIP] list
                      {name,type,fields,symbols,items,values,size}, in the specification's [ORDER]; the sort key of
                      the emitted attributes is the position in that same table; `namespace` is not kept (it is
                      folded into the full name: [FULLNAMES]); [PRIMITIVES]: the "single attribute => simple form"
                      decision must count the attributes that are kept, not the attributes of the input object.
 R2 digest input      Schema::fingerprint::<D> feeds exactly self.canonical_form() to D::update, once, and returns
                      D::finalize(); RabinFingerprintHeader::from_schema instantiates it with rabin::Rabin.
 R3 Rabin framing     EMPTY evaluates to 0xc15d213aa4d7a795; Default and Reset set result = EMPTY; both finalize
                      functions emit i64::to_le_bytes(self.result) (little endian); finalize_into_reset resets;
                      update folds every input byte through fp_table(); fp_table is seeded from EMPTY.
 R4 determinism       nothing reachable from canonical_form iterates a HashMap/HashSet (attribute order comes from
                      the table sort, array order from the JSON array), and the fingerprint has no other input.
Not decided: the normalisation of concrete schemas, the CRC arithmetic, MD5/SHA-256 (library digests).
"""
import os
import tomllib
import facts as factsmod
from mir import Program, callee_names, op_local, calls_named
import common
from shape import hyp_reach, option_switch

SPEC_KEEP = ["name", "type", "fields", "symbols", "items", "values", "size"]
EMPTY = -4513414715797952619  # 0xc15d213aa4d7a795 as i64


def get(prog, rep, rule, path):
    try:
        return prog.body(path)
    except KeyError as e:
        rep.anchor_error(rule, str(e))
        return None


def bool_switch(b, call_bi):
    d = b.blocks[call_bi]["term"]["dest"]["l"]
    for sbi in range(b.n):
        t = b.blocks[sbi]["term"]
        if t["t"] == "switch" and op_local(t["discr"]) == d:
            tg = dict(t["targets"])
            return sbi, tg.get(0), t["otherwise"]
    return None


def run(rep, tier="quick", replay=None, evidence_dir=None):
    prog = Program(factsmod.extract())
    rep.rule("C12.R1", "canonical attribute table = specification's STRIP/ORDER lists; PRIMITIVES reduction counts kept attributes")
    rep.rule("C12.R2", "fingerprint::<D> = D(canonical_form()), nothing else")
    rep.rule("C12.R3", "Rabin: EMPTY seed value, little-endian output, reset, table use")
    rep.rule("C12.R4", "no hash-order dependence in the canonical form")

    # ---------------------------------------------------------------- R1
    try:
        table = prog.const("schema::RESERVED_FIELDS").get("strs")
    except KeyError as e:
        table = None
        rep.anchor_error("C12.R1", str(e))
    pm = get(prog, rep, "C12.R1", "schema::pcf_map")
    fop = get(prog, rep, "C12.R1", "schema::field_ordering_position")
    if table and pm is not None and fop is not None:
        rep.analysed["attribute table entries"] = len(table)
        # the ordering function consults that table
        refs = [o for bi, si, st in fop.stmts() if st["s"] == "assign" for o in [st["rv"].get("o")] if o and o.get("item") == "schema::RESERVED_FIELDS"]
        rep.ob("C12.R1", "field_ordering_position looks the attribute up in RESERVED_FIELDS", len(refs) >= 1 and len(calls_named(fop, "std::iter::Iterator::position")) == 1, "", fop.loc())
        # loop head: Iterator::next over the input map
        nxt = [(bi, t) for bi, t in pm.calls() if callee_names(t["func"])[0] == "std::iter::Iterator::next" and "serde_json::map::Iter" in str(t["func"].get("ga"))]
        if not rep.ob("C12.R1", "pcf_map iterates the attributes of the input object once", len(nxt) == 1, "found %d loops" % len(nxt), pm.loc()):
            return common.finish(rep, evidence_dir=evidence_dir)
        head = nxt[0][0]
        pushes = set(bi for bi, t in calls_named(pm, "std::vec::Vec::<T, A>::push"))
        rets = set(pm.return_blocks())
        # hypothetical attribute: under "the attribute name is L" every comparison of the loop with a literal is decided
        # (true for L, false otherwise) and so is the table lookup; an attribute is emitted when a push (or the simple-form
        # return) can be reached before the next attribute is fetched
        cmp_calls = {}
        for bi, t in pm.calls():
            nm = callee_names(t["func"])
            if not nm or nm[0] != "std::cmp::PartialEq::eq" or not pm.in_loop(bi):
                continue
            lit = None
            for a in t["args"]:
                lit = lit or pm.op_str(a)
            if lit is not None:
                cmp_calls[bi] = lit
        look = {}
        for bi, t in calls_named(pm, "std::option::Option::<T>::is_none", "std::option::Option::<T>::is_some"):
            cr = pm.call_result_of(t["args"][0])
            if cr and callee_names(cr[1]["func"])[0] == "schema::field_ordering_position" and pm.in_loop(bi):
                look[bi] = callee_names(t["func"])[0].endswith("is_none")
        rep.ob("C12.R1", "the loop consults the attribute table (field_ordering_position(k).is_none())", len(look) >= 1, "", pm.loc())
        osw = option_switch(pm, nxt[0][1]["dest"]["l"])
        if not rep.ob("C12.R1", "the loop body is entered on the Some edge of the attribute iterator", osw is not None, "", pm.loc(head)):
            return common.finish(rep, evidence_dir=evidence_dir)
        body_entry = [osw[2]]

        def emitted_under(L):
            def cv(bi, t):
                if bi in cmp_calls:
                    return cmp_calls[bi] == L
                if bi in look:
                    return (L not in table) == look[bi]
                return None
            reg = hyp_reach(pm, body_entry, cv, stop={head})
            direct_ret = any(pm.blocks[x]["term"]["t"] == "call" and pm.blocks[x]["term"]["dest"]["l"] == 0 for x in reg)
            return bool(reg & pushes) or direct_ret or bool(reg & rets)
        cmps = sorted(set(cmp_calls.values()))
        strip = []
        emits = []
        for L in sorted(set(table) | set(cmps)):
            (emits if emitted_under(L) else strip).append(L)
        ok_unknown = not emitted_under("\0 any attribute outside the table")
        rep.ob("C12.R1", "attributes outside the table are stripped", ok_unknown, "unknown attributes (doc-like extras, custom attributes) must not reach the canonical form", pm.loc())
        kept = [f for f in table if f not in strip]
        rep.analysed["attributes explicitly stripped"] = len(strip)
        rep.sample({"table": table, "stripped": strip, "kept": kept})
        for f in kept:
            rep.ob("C12.R1", "kept attribute %r is in the specification's STRIP list" % f, f in SPEC_KEEP,
                   "the canonical form keeps %r, which the specification strips; canonical forms and fingerprints of schemas carrying it differ from other implementations'" % f, pm.loc())
        for f in SPEC_KEEP:
            rep.ob("C12.R1", "specification attribute %r is kept" % f, f in kept, "%r is stripped or not in the table" % f, pm.loc())
        order = [f for f in table if f in SPEC_KEEP]
        rep.ob("C12.R1", "kept attributes are ordered name,type,fields,symbols,items,values,size", order == SPEC_KEEP, "table order %s" % order, pm.loc())
        rep.ob("C12.R1", "`namespace` is not an attribute of the canonical form", "namespace" not in kept, "", pm.loc())
        # sort by table position
        srt = calls_named(pm, "core::slice::<impl [T]>::sort_unstable_by_key", "core::slice::<impl [T]>::sort_by_key", "core::slice::<impl [T]>::sort_by_cached_key")
        oks = False
        if len(srt) == 1:
            for ch in prog.children.get(pm.key, []):
                if calls_named(ch, "schema::field_ordering_position") and ch.line == srt[0][1].get("ln"):
                    oks = True
        rep.ob("C12.R1", "emitted attributes are sorted by their table position", oks and not pm.in_loop(srt[0][0]) if srt else False, "", pm.loc())
        # FULLNAMES: the name attribute emits the computed full name
        rep.ob("C12.R1", "the `name` attribute is emitted separately (full name)", "name" in emits, "", pm.loc())
        # the set of already emitted definitions is keyed by the same full name that is emitted for `name`
        keyed = []
        for bi, t in calls_named(pm, "std::collections::HashSet::<T, S, A>::contains", "std::collections::HashSet::<T, S, A>::insert"):
            if pm.resolve_operand(t["args"][0]) and pm.resolve_operand(t["args"][0])[0] == 2:
                a = t["args"][1]
                cr = pm.call_result_of(a)
                if cr and callee_names(cr[1]["func"])[0].endswith(("Clone::clone", "ToString::to_string", "ToOwned::to_owned", "String::from")) and cr[1]["args"]:
                    a = cr[1]["args"][0]
                r = pm.resolve_operand(a) if a.get("k") in ("copy", "move") else None
                keyed.append(r[0] if r else None)
        emitted = set()
        for bi, t in calls_named(pm, "schema::pcf_string"):
            # the value of the `name` attribute and the text returned for an already defined type
            r = pm.resolve_operand(t["args"][0]) if t["args"][0].get("k") in ("copy", "move") else None
            cr = pm.call_result_of(t["args"][0])
            if cr and callee_names(cr[1]["func"])[0].endswith("Deref::deref") and cr[1]["args"][0].get("k") in ("copy", "move"):
                r = pm.resolve_operand(cr[1]["args"][0])
            if r:
                emitted.add(r[0])
        rep.ob("C12.R1", "the set of already defined names is keyed by the full name that is emitted", bool(keyed) and all(k is not None and k in emitted for k in keyed),
               "two types with the same simple name in different namespaces would be merged (the second becomes a dangling reference): dedupe keys %s, emitted name locals %s" % (keyed, sorted(emitted)), pm.loc())
        # PRIMITIVES
        maplen = [(bi, t) for bi, t in pm.calls() if callee_names(t["func"])[0].startswith("serde_json::Map::") and callee_names(t["func"])[0].endswith("::len")
                  and pm.resolve_operand(t["args"][0]) and pm.resolve_operand(t["args"][0])[0] == 1]
        veclen = [(bi, t) for bi, t in calls_named(pm, "std::vec::Vec::<T, A>::len")]
        rep.ob("C12.R1", "PRIMITIVES: the simple-form decision counts kept attributes, not the input object's attributes", len(maplen) == 0 and len(veclen) >= 1,
               "pcf_map reduces {\"type\":T} to \"T\" only when the *input* object has one attribute (Map::len(schema) == 1); an object whose other attributes are all stripped "
               "(e.g. {\"type\":\"long\",\"logicalType\":\"timestamp-micros\"}) stays {\"type\":\"long\"} instead of \"long\"", pm.loc(maplen[0][0]) if maplen else pm.loc())
    rep.floor("C12.R1", "attribute-table obligations", len([o for o in rep.obligations if o["rule"] == "C12.R1"]), 20)

    # ---------------------------------------------------------------- R6 text of the canonical form: Display / serde_json, never Debug
    rep.rule("C12.R6", "the text of the canonical form is produced with Display formatting or serde_json, never with Rust's Debug formatting (whose escapes are not JSON)")
    n6 = 0
    dbg = []
    for k_, b_ in sorted(prog.bodies.items()):
        if b_.crate != "apache_avro" or not (b_.path.startswith("schema::pcf_") or b_.path.startswith("schema::parsing_canonical_form") or b_.path.startswith("schema::Schema::canonical_form")):
            continue
        n6 += 1
        for bi, t in b_.calls():
            n_ = callee_names(t["func"])[0]
            if n_.endswith("Argument::<'_>::new_debug") or n_.endswith("::new_debug") or n_.endswith("fmt::Debug::fmt"):
                dbg.append((b_, bi))
    rep.ob("C12.R6", "no Debug formatting in the canonical-form functions", not dbg,
           "a name or string is written with {:?}: quotes, backslashes and non-ASCII characters come out in Rust syntax (\\u{..}), the canonical form and every fingerprint of such a schema differ from other implementations'", dbg[0][0].loc(dbg[0][1]) if dbg else "")
    rep.floor("C12.R6", "canonical-form functions scanned", n6, 4)

    # ---------------------------------------------------------------- R2
    fp = get(prog, rep, "C12.R2", "schema::Schema::fingerprint")
    if fp is not None:
        new = calls_named(fp, "digest::Digest::new")
        upd = calls_named(fp, "digest::Digest::update")
        fin = calls_named(fp, "digest::Digest::finalize")
        cf = calls_named(fp, "schema::Schema::canonical_form")
        ok = len(new) == 1 and len(upd) == 1 and len(fin) == 1 and len(cf) == 1
        if rep.ob("C12.R2", "fingerprint: one new, one update, one finalize, one canonical_form", ok, "new=%d update=%d finalize=%d canonical_form=%d" % (len(new), len(upd), len(fin), len(cf)), fp.loc()):
            rep.ob("C12.R2", "fingerprint: update is fed the canonical form of self", op_local(upd[0][1]["args"][1]) == cf[0][1]["dest"]["l"] and fp.opdesc(cf[0][1]["args"][0]) == "self", "", fp.loc(upd[0][0]))
            r0 = fp.resolve_operand(upd[0][1]["args"][0])
            r1 = fp.resolve_operand(fin[0][1]["args"][0])
            rep.ob("C12.R2", "fingerprint: the digest updated is the one created and the one finalized", r0 and r1 and r0[0] == new[0][1]["dest"]["l"] == r1[0], "", fp.loc())
            rep.ob("C12.R2", "fingerprint: new -> update -> finalize in order, no loop", fp.dominates(new[0][0], upd[0][0]) and fp.dominates(upd[0][0], fin[0][0]) and not fp.in_loop(upd[0][0]), "", fp.loc())
            # result bytes come from finalize
            agg = [st for _, _, st in fp.stmts() if st["s"] == "assign" and st["pl"]["l"] == 0 and st["rv"]["r"] == "agg"]
            okb = False
            if len(agg) == 1:
                cur = agg[0]["rv"]["ops"][0]
                for _ in range(5):
                    r = fp.resolve_operand(cur)
                    if r and r[0] == fin[0][1]["dest"]["l"]:
                        okb = True
                        break
                    cr = fp.call_result_of(cur)
                    if not cr or not cr[1]["args"]:
                        break
                    cur = cr[1]["args"][0]
            rep.ob("C12.R2", "fingerprint: the returned bytes are the finalize output", okb, "", fp.loc())
            others = [callee_names(t["func"])[0] for bi, t in fp.calls() if not callee_names(t["func"])[0].startswith(("digest::", "std::ops::Deref", "std::slice::", "schema::Schema::canonical_form"))]
            rep.ob("C12.R2", "fingerprint: no other input (no extra calls)", not others, "extra calls: %s" % others, fp.loc())
    fs = get(prog, rep, "C12.R2", "headers::RabinFingerprintHeader::from_schema")
    if fs is not None:
        c = calls_named(fs, "schema::Schema::fingerprint")
        rep.ob("C12.R2", "RabinFingerprintHeader::from_schema uses fingerprint::<Rabin>", len(c) == 1 and c[0][1]["func"].get("ga") == ["rabin::Rabin"], "", fs.loc())
    cfb = get(prog, rep, "C12.R2", "schema::Schema::canonical_form")
    if cfb is not None:
        tv = calls_named(cfb, "serde_json::to_value")
        pc = calls_named(cfb, "schema::parsing_canonical_form")
        rep.ob("C12.R2", "canonical_form = parsing_canonical_form(serde_json::to_value(self)) with a fresh name set",
               len(tv) == 1 and len(pc) == 1 and cfb.dominates(tv[0][0], pc[0][0]) and cfb.opdesc(tv[0][1]["args"][0]) == "self" and pc[0][1]["dest"]["l"] == 0
               and len(calls_named(cfb, "std::collections::HashSet::<T>::new")) == 1, "", cfb.loc())

    # ---------------------------------------------------------------- R3
    try:
        e = prog.const("rabin::EMPTY")
        rep.ob("C12.R3", "EMPTY = 0xc15d213aa4d7a795", e.get("int") == EMPTY, "evaluates to %s" % e.get("int"))
    except KeyError as ex:
        rep.anchor_error("C12.R3", str(ex))

    def sets_empty(b):
        for _, _, st in b.stmts():
            if st["s"] != "assign":
                continue
            rv = st["rv"]
            if rv["r"] == "use" and rv["o"].get("item") == "rabin::EMPTY" and (b.pldesc(st["pl"]).endswith("result")):
                return True
            if rv["r"] == "agg" and rv.get("adt") == "rabin::Rabin" and rv["ops"] and rv["ops"][0].get("item") == "rabin::EMPTY":
                return True
        return False
    for path, what in (("<rabin::Rabin as std::default::Default>::default", "Default"), ("<rabin::Rabin as digest::Reset>::reset", "Reset")):
        b = get(prog, rep, "C12.R3", path)
        if b is not None:
            rep.ob("C12.R3", "%s sets result = EMPTY" % what, sets_empty(b), "", b.loc())
    for path, what in (("<rabin::Rabin as digest::FixedOutput>::finalize_into", "finalize_into"), ("<rabin::Rabin as digest::FixedOutputReset>::finalize_into_reset", "finalize_into_reset")):
        b = get(prog, rep, "C12.R3", path)
        if b is None:
            continue
        le = calls_named(b, "core::num::<impl i64>::to_le_bytes", "core::num::<impl u64>::to_le_bytes")
        cp = calls_named(b, "core::slice::<impl [T]>::copy_from_slice")
        ok = len(le) == 1 and len(cp) == 1 and b.opdesc(le[0][1]["args"][0]).endswith("result")
        if ok:
            r = b.resolve_operand(cp[0][1]["args"][1])
            ok = bool(r and r[0] == le[0][1]["dest"]["l"])
        rep.ob("C12.R3", "%s writes result.to_le_bytes() (little endian) to the output" % what, ok,
               "byte order calls: %s" % [callee_names(t["func"])[0] for _, t in b.calls() if "bytes" in callee_names(t["func"])[0]], b.loc())
        if what == "finalize_into_reset":
            rs = calls_named(b, "digest::Reset::reset")
            rep.ob("C12.R3", "finalize_into_reset resets after emitting", len(rs) == 1 and cp and b.dominates(cp[0][0], rs[0][0]), "", b.loc())
    up = get(prog, rep, "C12.R3", "<rabin::Rabin as digest::Update>::update")
    if up is not None:
        tb = calls_named(up, "rabin::fp_table")
        wr = [bi for bi, si, st in up.stmts() if st["s"] == "assign" and st["pl"]["p"] and up.pldesc(st["pl"]).endswith("result")]
        rep.ob("C12.R3", "update folds every byte of the input through fp_table() into result", len(tb) == 1 and up.in_loop(tb[0][0]) and len(wr) == 1 and up.in_loop(wr[0]) and
               len(calls_named(up, "std::iter::Iterator::next")) == 1, "", up.loc())
    ft = get(prog, rep, "C12.R3", "rabin::fp_table")
    if ft is not None:
        bodies = prog.with_closures(ft)
        uses_empty = any(o.get("item") == "rabin::EMPTY" for b in bodies for _, _, st in b.stmts() if st["s"] == "assign" for o in
                         ([st["rv"].get("o")] if st["rv"].get("o") else []) + [st["rv"].get("a"), st["rv"].get("b")] if o)
        rep.ob("C12.R3", "the CRC table is derived from EMPTY", uses_empty, "", ft.loc())

    # ---------------------------------------------------------------- R4
    roots = [b.key for b in (cfb,) if b is not None]
    reach = prog.reach(roots) if roots else set()
    local = [k for k in reach if k in prog.bodies and prog.bodies[k].path.startswith(("schema::pcf_", "schema::parsing_canonical_form", "schema::Schema::canonical_form", "schema::field_ordering", "schema::is_named_type"))]
    rep.analysed["functions in the canonical-form path"] = len(local)
    rep.floor("C12.R4", "canonical-form functions", len(local), 6)
    bad = []
    for k in local:
        b = prog.bodies[k]
        for bi, t in b.calls():
            nm = callee_names(t["func"])
            for n in nm:
                if ("HashMap" in n or "HashSet" in n or "hash_map" in n or "hash_set" in n) and any(n.endswith(s) for s in ("::iter", "::keys", "::values", "::into_iter", "::drain", "::iter_mut", "::into_keys", "::into_values")):
                    bad.append("%s calls %s" % (b.path, n))
            ga = str(t["func"].get("ga"))
            if nm and nm[0] == "std::iter::IntoIterator::into_iter" and ("HashMap" in ga or "HashSet" in ga):
                bad.append("%s iterates %s" % (b.path, ga))
    rep.ob("C12.R4", "no HashMap/HashSet iteration in the canonical-form path", not bad, "; ".join(bad))

    # ---------------------------------------------------------------- R5 (imported): the full names that the canonical
    # form prints are the ones the parser assigned; they depend on the namespace being threaded into nested definitions
    rep.rule("C12.R5", "full names are assigned consistently: namespace threading in the parser (C11.R4 instances)")
    import c11
    sub = common.Report("C11", tier, 0)
    c11.run(sub, tier=tier, collect_only=True)
    n5 = 0
    for o in sub.obligations:
        if o["rule"] == "C11.R4":
            n5 += 1
            rep.ob("C12.R5", "[C11.R4] " + o["instance"], o["ok"], o["detail"], o["loc"])
    rep.floor("C12.R5", "imported namespace-threading obligations", n5, 20)

    rep.floor("C12", "obligations", len(rep.obligations), 38)
    rep.not_decided = ["canonical text of concrete schemas (name qualification, escaping, number formatting)", "CRC-64-AVRO table arithmetic; MD5 / SHA-256 (library digests)",
                       "that edits the specification calls irrelevant leave the form unchanged (follows from R1's strip list only for attribute edits)"]
    return common.finish(rep, level="other",
                         explanation="constant-table evaluation (RESERVED_FIELDS, EMPTY), per-literal edge-region classification of pcf_map's loop (strip vs emit), call/dataflow shape of fingerprint and of the Rabin digest impls, hash-iteration lint over the canonical-form call-graph slice",
                         assumptions=["serde_json::Map iteration order is irrelevant because emitted attributes are sorted by table position", "digest crates (md5, sha2) are correct"], evidence_dir=evidence_dir)
