"""C19 — process-wide settings are first-set-wins, uniformly enforced and thread-safe.

Structural clauses decided (type-level facts from the compiler + who-may-access + dataflow):
 R1  every process-wide *setting* cell is an immutable `static X: std::sync::OnceLock<T>` whose T has no
     interior mutability of its own; there is no `static mut` in either crate; every other static
     with interior mutability is classified in tables/statics.toml (caches of Freeze data,
     thread-local scratch cells). With a non-mut OnceLock only get/set/get_or_init/wait are
     callable, so first-set-wins and thread safety follow from the type.
 R2  who may access: each setting static is referenced only by its accessor functions (exact set in
     tables/statics.toml); on each cell at most one parameter-free default installer exists and all
     other writers pass the caller's value; the only OnceLock methods used are set/get_or_init/get.
 R3  the value in force is reported: the accessor's return value is data-dependent on the cell
     (result of get_or_init / set), not on the argument.
 R4  uniform enforcement: every internal call of the limit setter passes the DEFAULT constant (the
     only exception is a public wrapper forwarding its own parameter), every limit guard reads the
     limit through the getter, and the guards accept exactly value <= limit (shared with C05.R4).
 R5  statics are not nameable from outside the crate (visibility facts), so no other code can
     race on them.
"""
import os
import tomllib
import facts as factsmod
from mir import Program, callee_names, rv_operands, forward_taint, op_local
import common
import prov

ONCE_OK = ("std::sync::OnceLock::<T>::set", "std::sync::OnceLock::<T>::get_or_init", "std::sync::OnceLock::<T>::get",
           "std::sync::OnceLock::<T>::wait", "std::sync::OnceLock::<T>::try_insert", "std::sync::OnceLock::<T>::get_or_try_init")
INTERIOR = ("Mutex", "RwLock", "Atomic", "Cell<", "RefCell", "UnsafeCell", "Condvar")


def static_refs(b):
    out = []
    for bi, si, st in b.stmts():
        if st["s"] == "assign":
            for o in rv_operands(st["rv"]):
                if o.get("k") == "const" and "static" in o:
                    out.append((o["static"], bi, st["pl"]["l"]))
    for bi, t in b.calls():
        for a in t["args"]:
            if a.get("k") == "const" and "static" in a:
                out.append((a["static"], bi, None))
    return out


def load_table():
    p = os.path.join(common.VERIF, "rules", "tables", "statics.toml")
    with open(p, "rb") as fh:
        return tomllib.load(fh)


def run(rep, tier="quick", replay=None, evidence_dir=None):
    facts = factsmod.extract()
    prog = Program(facts)
    table = load_table()
    settings = dict((e["path"], e) for e in table.get("setting", []))
    others = dict((e["path"], e) for e in table.get("other", []))
    rep.rule("C19.R1", "setting cells are immutable OnceLock statics; no static mut; other interior-mutable statics classified")
    rep.rule("C19.R2", "each setting static is touched only by its accessors, with at most one default installer")
    rep.rule("C19.R3", "accessors return the value in the cell")
    rep.rule("C19.R4", "internal limit reads pass the DEFAULT constant")
    rep.rule("C19.R5", "setting statics are not visible outside the crate")

    # ---------- R1 ----------
    all_statics = []
    for crate in ("apache_avro", "apache_avro_derive"):
        for s in facts[crate]["statics"]:
            all_statics.append((crate, s))
    rep.analysed["statics in both crates"] = len(all_statics)
    found_settings = {}
    for crate, s in all_statics:
        key = s["path"] if crate == "apache_avro" else crate + "::" + s["path"]
        loc = "%s:%s" % (s["file"], s["line"])
        rep.ob("C19.R1", "static %s is not `static mut`" % key, not s["mutable"], "a mutable static can be written without synchronisation", loc)
        if key in settings:
            found_settings[key] = s
            ty = s["ty"]
            ok = ty.startswith("std::sync::OnceLock<") and not s["thread_local"] and not s["mutable"]
            inner = ty[len("std::sync::OnceLock<"):-1] if ok else ty
            rep.ob("C19.R1", "setting %s is an immutable process-wide OnceLock" % key, ok,
                   "a setting must live in a non-mut, non-thread-local std::sync::OnceLock (type is %s)" % ty, loc)
            rep.ob("C19.R1", "setting %s holds no interior-mutable payload" % key, not any(k in inner for k in INTERIOR),
                   "payload type %s could be changed after the first set" % inner, loc)
        elif s["interior"] or not s["freeze"]:
            e = others.get(key)
            rep.ob("C19.R1", "interior-mutable static %s is classified" % key, e is not None,
                   "a static with interior mutability (%s) that is not in tables/statics.toml: is it a new process-wide setting?" % s["ty"], loc)
            if e is not None:
                kind = e.get("kind")
                if kind == "cache":
                    rep.ob("C19.R1", "cache %s is an immutable OnceLock" % key, s["ty"].startswith("std::sync::OnceLock<") and not s["mutable"], s["ty"], loc)
                elif kind == "thread_local":
                    rep.ob("C19.R1", "scratch cell %s is thread-local" % key, s["thread_local"], "a Cell in a plain static would be shared between threads", loc)
    for k in settings:
        if k not in found_settings:
            rep.anchor_error("C19.R1", "setting static %s" % k)
    rep.floor("C19.R1", "setting statics", len(found_settings), 7)

    # ---------- R2 / R3 ----------
    refs = {}
    for b in prog.by_crate["apache_avro"]:
        for (sp, bi, dl) in static_refs(b):
            refs.setdefault(sp, []).append((b, bi, dl))
    n_acc = 0
    for sp, e in sorted(settings.items()):
        users = refs.get(sp, [])
        fns = sorted(set((b.parent or b.path) if b.kind == "Closure" else b.path for b, _, _ in users))
        want = sorted(e["accessors"])
        rep.ob("C19.R2", "%s is referenced exactly by its accessors" % sp, fns == want,
               "referenced by %s, table says %s" % (fns, want), users[0][0].loc() if users else "")
        installers = 0
        for b, bi, dl in users:
            n_acc += 1
            # every use of the static's reference must be the receiver of an allowed OnceLock method
            tainted = forward_taint(b, [dl], through_calls=False) if dl is not None else set()
            for cbi, t in b.calls():
                if not t["args"]:
                    continue
                a0 = op_local(t["args"][0])
                uses_static = (a0 in tainted) or (t["args"][0].get("static") == sp)
                if not uses_static:
                    continue
                names = callee_names(t["func"])
                rep.ob("C19.R2", "%s uses %s only through set/get_or_init/get" % (b.path, sp), bool(names) and names[0] in ONCE_OK,
                       "unexpected operation on a setting cell: %s" % names, b.loc(cbi))
                if names and names[0] in ("std::sync::OnceLock::<T>::get", "std::sync::OnceLock::<T>::wait"):
                    rep.ob("C19.R2", "%s reads %s in a way that freezes the default (get_or_init), not by peeking" % (b.path, sp), False,
                           "a read through OnceLock::get that falls back to a default does not install it: a later setter call succeeds and changes the value in force after it was already used",
                           b.loc(cbi))
                if names and names[0].endswith("get_or_init"):
                    # closure argument: captures a parameter (user value) or nothing (default installer)?
                    cl = t["args"][1] if len(t["args"]) > 1 else {}
                    captures = closure_captures(b, cl)
                    user_value = any(1 <= r <= b.argc for r in captures)
                    if not user_value:
                        installers += 1
                        # default installer closure must be self-contained: no captured locals at all
                        rep.ob("C19.R2", "%s installs a parameter-free default into %s" % (b.path, sp), not captures, "default closure captures %s" % captures, b.loc(cbi))
                    # R3: returned value derives from the call result
                    flows = forward_taint(b, [t["dest"]["l"]])
                    param_direct = forward_taint(b, list(range(1, b.argc + 1)), through_calls=False)
                    rep.ob("C19.R3", "%s returns the value held by %s" % (b.path, sp), 0 in flows and 0 not in param_direct,
                           "the reported value must come from the cell (result of get_or_init), not from the argument", b.loc(cbi))
                if names and names[0].endswith("::set"):
                    rep.ob("C19.R3", "%s returns OnceLock::set's result for %s" % (b.path, sp), t["dest"]["l"] == 0 or 0 in forward_taint(b, [t["dest"]["l"]]),
                           "the setter must report whether its value was installed", b.loc(cbi))
                    rep.ob("C19.R2", "%s passes the caller's value to %s.set" % (b.path, sp),
                           len(t["args"]) > 1 and (b.resolve_operand(t["args"][1]) or (0,))[0] in range(1, b.argc + 1),
                           "set() must install the caller's value", b.loc(cbi))
        rep.ob("C19.R2", "%s has at most one default installer" % sp, installers <= 1, "%d parameter-free get_or_init sites: two defaults could disagree" % installers, "")
    rep.analysed["accessor references examined"] = n_acc
    rep.floor("C19.R2", "accessor references", n_acc, 13)

    # ---------- R4 ----------
    lg = prov.find_limit_getters(prog)
    n4 = 0
    for b in prog.by_crate["apache_avro"]:
        for bi, t in b.calls():
            names = callee_names(t["func"])
            if not any(n in lg for n in names):
                continue
            n4 += 1
            if not t["args"]:
                continue  # parameter-free reader: how it reads the cell is R2's obligation
            a = t["args"][0]
            is_default = a.get("k") == "const" and a.get("item", "").endswith("DEFAULT_MAX_ALLOCATION_BYTES")
            forwards = a.get("k") in ("copy", "move") and (b.resolve_operand(a) or (0,))[0] in range(1, b.argc + 1) \
                and b.raw.get("vis", "").startswith("Public") and t["dest"]["l"] == 0
            rep.ob("C19.R4", "%s calls the limit accessor with DEFAULT (or is a public forwarding wrapper)" % b.path, is_default or forwards,
                   "an internal call with another value could install it as the process-wide limit before the user's setting", b.loc(bi))
    rep.analysed["limit accessor call sites"] = n4
    rep.floor("C19.R4", "limit accessor call sites", n4, 4)
    # same for the human-readable flag: internal readers go through the parameter-free default installer (R2 covers)

    # ---------- R5 ----------
    for sp, s in sorted(found_settings.items()):
        rep.ob("C19.R5", "%s is not public" % sp, not s["vis"].startswith("Public"), "visibility %s" % s["vis"], "%s:%s" % (s["file"], s["line"]))

    # C05.R4 polarity re-checked here because 'the limit in force is the one every decoder applies'
    import c05
    rf = {}
    guards = prov.find_base_guards(prog, lg)
    rep.floor("C19.R4", "limit guards reading the limit through the accessor", len(guards), 3)
    for k, g in sorted(guards.items()):
        b = g["body"]
        for (bi, st, lim_is_a) in g["cmps"]:
            op = st["rv"]["op"]
            if lim_is_a:
                op = {"Le": "Ge", "Lt": "Gt", "Ge": "Le", "Gt": "Lt"}[op]
            rep.ob("C19.R4", "%s compares value %s limit" % (b.path, "<= (accept) / > (reject)"), op in ("Le", "Gt"),
                   "boundary: lengths up to the limit must be accepted and lengths above it rejected (found `value %s limit`)" % op, b.loc(bi, st.get("ln")))

    # ---------- R6: the limit in force is the one every decoder applies ----------
    # C05's provenance rules (every data-declared length / count in the reading set reaches an allocator or a loop
    # counter only through a limit guard) are the structural content of this clause; their verdicts are imported.
    rep.rule("C19.R6", "uniform enforcement: every declared length or count in the reading set passes a limit guard (C05.R1/R2/R4 instances)")
    sub = common.Report("C05", tier, 0)
    c05.run(sub, tier=tier, collect_only=True)
    n6 = 0
    for o in sub.obligations:
        if o["rule"] in ("C05.R1", "C05.R2", "C05.R4"):
            n6 += 1
            rep.ob("C19.R6", "[%s] %s" % (o["rule"], o["instance"]), o["ok"], o["detail"], o["loc"])
    rep.floor("C19.R6", "imported length/count guard obligations", n6, 30)

    rep.not_decided = ["that std::sync::OnceLock itself is correct (trusted)", "run-time interleavings (follow from the type-level facts)"]
    return common.finish(rep, level="other",
                         explanation="type-level facts (static mutability, OnceLock type, Freeze, visibility) from the compiler for every static of both crates, who-may-access sets, closure-capture and return-value dataflow on the accessors, and the DEFAULT-constant rule on every call of the limit accessor",
                         assumptions=["std::sync::OnceLock provides set-once semantics and publication"],
                         evidence_dir=evidence_dir)


def closure_captures(b, op):
    """root locals (resolved) captured by the closure operand (an aggregate built in b)"""
    if op.get("k") not in ("copy", "move"):
        return []
    l = op["pl"]["l"]
    sd = b.single_def(l)
    out = []
    if sd and sd[2] == "assign" and sd[3]["r"] == "agg" and sd[3].get("ak") == "closure":
        for o in sd[3]["ops"]:
            r = b.resolve_operand(o)
            if r:
                out.append(r[0])
    return out
