"""C09 — compatibility verdicts are sound with respect to actual reading.

Structural clauses decided:
 R1 verdict => readable   for every pair of non-composite schema shapes (W, R) for which Checker::inner_full_match_schemas
                 answers Ok(Full) unconditionally (no Err, no Partial, no recursion on that shape pair), the Value variant
                 that decode_internal builds for W must resolve against R on every path: the resolver cell (V(W), R) must have
                 no error path ("if the checker reports Full, every value writable with W is read successfully with R").
                 The logical date/time values are first mapped to their underlying int/long exactly as resolve_internal does
                 (that normalisation is itself verified: see R1n).
 R2 lattice      Compatibility::bitand_assign yields Full only for (Full, Full).
 R3 symmetry     mutual_read evaluates can_read(a, b) and can_read(b, a) - both, unconditionally - and combines them with &=.
 R4 safe steps   the specification's always-safe steps are never rejected: the numeric promotions and string<->bytes have an
                 unconditional Full; in the record arm a reader field without a writer field is an error only when it has no
                 default; the enum arm answers Full when the reader enum has a default; the reader field is matched by its
                 name first and then by its aliases against the *writer field names*.
 R5 memo         the recursion cache is filled only with the Ok result of the inner call, keyed by (writer, reader).
Not decided: soundness for composite schemas with particular values, recursion through names.
"""
import os
import tomllib
import facts as factsmod
from mir import Program, callee_names, op_local, calls_named, edge_only_region
import common
import shape
import restab
import wiretab
from vpes import pair_shapes

CK = "schema_compatibility::Checker::"
DT_INT = ("Date", "TimeMillis")
DT_LONG = ("TimeMicros", "TimestampMillis", "TimestampMicros", "TimestampNanos", "LocalTimestampMillis", "LocalTimestampMicros", "LocalTimestampNanos")


def compat_table(prog, w):
    b = prog.body(CK + "inner_full_match_schemas")
    vp = w.vpes(b)
    roots = sorted(r for r, a in vp.roots.items() if a == "schema::Schema")
    rows = {}
    for s, reg in pair_shapes(vp, roots[0], roots[1]):
        W, R = vp.shape_name(s, roots[0]), vp.shape_name(s, roots[1])
        comp = set()
        err = deleg = False
        for bi in reg:
            for st in b.blocks[bi]["stmts"]:
                if st["s"] == "assign" and st["rv"]["r"] == "agg":
                    if st["rv"].get("adt") == "schema_compatibility::Compatibility":
                        comp.add(st["rv"]["variant"])
                    if st["rv"].get("adt") == "std::result::Result" and st["rv"]["variant"] == "Err":
                        err = True
            t = b.blocks[bi]["term"]
            if t["t"] == "call" and any("full_match_schemas" in n for n in callee_names(t["func"])):
                deleg = True
        rows[(W, R)] = {"comp": comp, "err": err, "deleg": deleg, "full": comp == {"Full"} and not err and not deleg}
    return b, rows


def run(rep, tier="quick", replay=None, evidence_dir=None):
    prog = Program(factsmod.extract())
    rep.rule("C09.R1", "an unconditional Full verdict implies the decoded value resolves against the reader on every path")
    rep.rule("C09.R2", "Full & x is Full only for x = Full")
    rep.rule("C09.R3", "mutual_read checks both directions unconditionally")
    rep.rule("C09.R4", "the specification's always-safe evolution steps are accepted")
    rep.rule("C09.R5", "the recursion memo stores only results of the inner check, keyed by both schemas")
    T = wiretab.tables(prog)
    w = T["wire"]
    sp = wiretab.spec()
    RT = restab.table(prog)
    ib, rows = compat_table(prog, w)
    full = sorted(k for k, v in rows.items() if v["full"])
    rep.analysed["schema shape pairs scanned"] = len(rows)
    rep.analysed["pairs with an unconditional Full verdict"] = len(full)
    rep.floor("C09.R1", "shape pairs scanned", len(rows), 800)
    rep.floor("C09.R1", "unconditional Full pairs", len(full), 100)
    # R1n: the date/time normalisation in resolve_internal (value -> underlying number unless the reader is the same logical type)
    ri = prog.body("types::Value::resolve_internal")
    vp = w.vpes(ri)
    vroot = [r for r, a in vp.roots.items() if a == "types::Value"][0]
    sroot = [r for r, a in vp.roots.items() if a == "schema::Schema"][0]
    norm = {}
    for V in DT_INT + DT_LONG:
        for R in ("Long", V):
            reg = vp.region({(vroot, ()): V, (sroot, ()): R})
            built = set(st["rv"]["variant"] for bi in reg for st in ri.blocks[bi]["stmts"] if st["s"] == "assign" and st["rv"]["r"] == "agg" and st["rv"].get("adt") == "types::Value")
            norm[(V, R)] = built
    normalises = all((("Int" if V in DT_INT else "Long") in norm[(V, "Long")]) and not ({"Int", "Long"} & norm[(V, V)]) for V in DT_INT + DT_LONG)
    rep.analysed["resolve_internal maps date/time values to their underlying number first"] = 1 if normalises else 0
    rcells = RT["cells"]
    rshapes = set(k[1] for k in rcells)
    n1 = 0
    for (W, R) in full:
        row = sp.get(W)
        if row is None or not row["value"]:
            continue
        V = row["value"]
        if normalises and W != R:
            if V in DT_INT:
                V = "Int"
            elif V in DT_LONG:
                V = "Long"
        cands = wiretab.refine(R, [r for (v_, r) in rcells if v_ == V])
        cells = [rcells[(V, r)] for r in cands if (V, r) in rcells]
        n1 += 1
        ok = bool(cells) and all(c["cls"] == "always" for c in cells)
        why = "no resolver cell" if not cells else "; ".join("%s: %s" % (c["callee"].split("::")[-1], c["cls"]) for c in cells)
        rep.ob("C09.R1", "Full verdict for writer %s / reader %s is honoured by the resolver" % (W, R), ok,
               "can_read(%s, %s) = Full on every path, but resolving the decoded Value::%s against a %s reader %s (%s)" % (
                   W, R, V, R, "has no success path" if cells and all(c["cls"] == "never" for c in cells) else "can fail", why),
               cells[0]["loc"] if cells else ib.loc())
    rep.analysed["Full pairs checked against the resolver"] = n1

    # ------------------------------------------------------------ R2
    ba = prog.bodies.get("<schema_compatibility::Compatibility as std::ops::BitAndAssign>::bitand_assign")
    if ba is None:
        rep.anchor_error("C09.R2", "bitand_assign")
    else:
        bvp = w.vpes(ba)
        roots = sorted(bvp.roots)
        res = {}
        for s, reg in pair_shapes(bvp, roots[0], roots[1]):
            a, c = bvp.shape_name(s, roots[0]), bvp.shape_name(s, roots[1])
            built = set(st["rv"]["variant"] for bi in reg for st in ba.blocks[bi]["stmts"] if st["s"] == "assign" and st["rv"]["r"] == "agg" and st["rv"].get("adt") == "schema_compatibility::Compatibility")
            res[(a, c)] = built
        for (a, c), built in sorted(res.items()):
            want = {"Full"} if (a, c) == ("Full", "Full") else {"Partial"}
            rep.ob("C09.R2", "%s & %s = %s" % (a, c, "/".join(sorted(want))), built == want, "bitand_assign builds %s" % sorted(built), ba.loc())
        rep.floor("C09.R2", "lattice cells", len(res), 4)
    # ------------------------------------------------------------ R3
    mr = prog.bodies.get("schema_compatibility::SchemaCompatibility::mutual_read")
    if mr is None:
        rep.anchor_error("C09.R3", "mutual_read")
    else:
        cr = calls_named(mr, "schema_compatibility::SchemaCompatibility::can_read")
        ok = len(cr) == 2
        if ok:
            if mr.dominates(cr[1][0], cr[0][0]):
                cr.reverse()
            a0 = [mr.resolve_operand(x)[0] for x in cr[0][1]["args"]]
            a1 = [mr.resolve_operand(x)[0] for x in cr[1][1]["args"]]
            ok = a0 == [1, 2] and a1 == [2, 1]
            rep.ob("C09.R3", "mutual_read calls can_read(a, b) and can_read(b, a)", ok, "argument roots %s and %s" % (a0, a1), mr.loc())
            g = shape.ok_gate(mr, cr[0][0])
            uncond = False
            if g:
                # from the Ok edge of the first call every path to a normal return passes the second call
                seen = mr.reachable(g[1], avoid={cr[1][0]})
                uncond = not any(r in seen for r in mr.return_blocks())
            rep.ob("C09.R3", "the reverse direction is evaluated whenever the forward direction did not fail", uncond,
                   "a verdict that skips the reverse check depends on the argument order", mr.loc(cr[1][0]))
            band = calls_named(mr, "std::ops::BitAndAssign::bitand_assign")
            rep.ob("C09.R3", "both verdicts are combined with &=", len(band) == 1 and mr.dominates(cr[1][0], band[0][0]), "", mr.loc())
        else:
            rep.ob("C09.R3", "mutual_read calls can_read twice", False, "found %d calls" % len(cr), mr.loc())
    # ------------------------------------------------------------ R4
    for W, R in (("Int", "Long"), ("Int", "Float"), ("Int", "Double"), ("Long", "Float"), ("Long", "Double"), ("Float", "Double"), ("String", "Bytes"), ("Bytes", "String")):
        rep.ob("C09.R4", "promotion %s -> %s is Full" % (W, R), rows.get((W, R), {}).get("full", False), "verdict cell %s" % rows.get((W, R)), ib.loc())
    for S in sorted(T["dec"]):
        if S in ("Ref", "Union", "Record", "Enum", "Fixed", "Array", "Map", "Duration") or S.endswith("(Fixed)") or S.startswith("Decimal"):
            continue   # named or parameterised shapes: the verdict depends on names / sizes / precision (conditional by nature)
        cell = rows.get((S, S))
        rep.ob("C09.R4", "%s is fully compatible with itself" % S, bool(cell) and cell["full"], "verdict cell %s" % cell, ib.loc())
    fam = prog.with_closures(ib)
    # record arm: MissingDefaultValue only under default.is_none()
    md = [(b, bi, st) for b in fam for bi, si, st in b.stmts() if st["s"] == "assign" and st["rv"]["r"] == "agg" and st["rv"].get("variant") == "MissingDefaultValue"]
    okm = False
    if len(md) == 1:
        b, mbi, _ = md[0]
        for bi, t in calls_named(b, "std::option::Option::<T>::is_none"):
            if "default" in b.opdesc(t["args"][0]):
                sw = shape.call_bool_switch(b, bi)
                if sw and b.dominates(sw[2], mbi) and edge_only_region(b, sw[0], sw[2]) is not None:
                    okm = True
    rep.ob("C09.R4", "a reader field missing in the writer is rejected only when it has no default", okm, "", ib.loc())
    oke = False
    for bi, t in calls_named(ib, "std::option::Option::<T>::is_some"):
        if "default" in ib.opdesc(t["args"][0]):
            sw = shape.call_bool_switch(ib, bi)
            if sw:
                reg = edge_only_region(ib, sw[0], sw[2])
                if reg is not None:
                    built = set(st["rv"]["variant"] for x in reg for st in ib.blocks[x]["stmts"] if st["s"] == "assign" and st["rv"]["r"] == "agg" and st["rv"].get("adt") == "schema_compatibility::Compatibility")
                    # the edge region extends to the join: look only at the first construction on that edge
                    oke = "Full" in built
    rep.ob("C09.R4", "an enum reader with a default accepts every writer enum", oke, "", ib.loc())
    # ... and it is the *reader's* default and symbol list that decide (the writer's symbols are the ones looked up)

    def side(body, op):
        r_ = body.resolve_operand(op) if op.get("k") in ("copy", "move") else None
        if not r_:
            return None
        nm_ = body.local_name(r_[0]) or ""
        if body.kind == "Closure" and r_[0] == 1:
            nm_ = body.opdesc(op)
        return "reader" if ("reader" in nm_ or nm_.startswith("r_")) else ("writer" if ("writer" in nm_ or nm_.startswith("w_")) else nm_)
    sides = [side(ib, t["args"][0]) for bi, t in calls_named(ib, "std::option::Option::<T>::is_some") if "default" in ib.opdesc(t["args"][0]) and "Enum" in ib.opdesc(t["args"][0])]
    rep.ob("C09.R4", "the enum default that makes every writer enum readable is the reader's", bool(sides) and all(x == "reader" for x in sides),
           "the checker looks at the default of %s: a reader without a default is reported to read symbols it does not know (the read fails), a reader with one is reported incompatible" % sides, ib.loc())
    cont = []
    for bb in fam:
        for bi, t in bb.calls():
            if callee_names(t["func"])[0].endswith("::contains") and "String" in str(t["func"].get("ga")) and t["args"]:
                cont.append((bb, bi, side(bb, t["args"][0]), side(bb, t["args"][1]) if len(t["args"]) > 1 else None))
    okc = bool(cont) and all(c[2] == "reader" for c in cont)
    rep.ob("C09.R4", "writer symbols are looked up in the reader's symbol list", okc, "contains() is called on %s" % [c[2] for c in cont], cont[0][0].loc(cont[0][1]) if cont else ib.loc())
    fm = [(bi, t) for bi, t in ib.calls() if callee_names(t["func"])[0] == "std::iter::Iterator::find_map"]
    okf = len(fm) == 1 and "Chain<std::iter::Once<&std::string::String>" in str(fm[0][1]["func"].get("ga"))
    inner_over_writer = False
    for ch in prog.children.get(ib.key, []):
        for bi, t in ch.calls():
            nm = callee_names(t["func"])
            if nm and nm[0] == "std::iter::Iterator::find" and "RecordField" in str(t["func"].get("ga")):
                inner_over_writer = True
    rep.ob("C09.R4", "a reader field is matched by its name, then its aliases (outer search), against the writer's field names (inner search)", okf and inner_over_writer,
           "searching the writer's fields first gives priority by writer order: a reader alias equal to an earlier writer field hijacks the match", ib.loc(fm[0][0]) if fm else ib.loc())
    # the reader (Value::resolve_record) matches fields the way the checker does: name first, then the reader's aliases
    # (C08.R3 instances) - otherwise a pair the checker calls Full is read into the wrong field or not at all
    import c08
    sub8 = common.Report("C08", tier, 0)
    c08.run(sub8, tier=tier, collect_only=True)
    n48 = 0
    for o in sub8.obligations:
        if o["rule"] == "C08.R3":
            n48 += 1
            rep.ob("C09.R4", "[C08.R3] " + o["instance"], o["ok"], o["detail"], o["loc"])
    rep.floor("C09.R4", "imported record-resolution obligations", n48, 7)
    # ------------------------------------------------------------ R5
    fms = prog.bodies.get(CK + "full_match_schemas")
    if fms is None:
        rep.anchor_error("C09.R5", "full_match_schemas")
    else:
        inner = calls_named(fms, CK + "inner_full_match_schemas")
        ins = calls_named(fms, "std::collections::HashMap::<K, V, S, A>::insert")
        ph = calls_named(fms, CK + "pointer_hash")
        ok = len(inner) == 1 and len(ins) == 1 and shape.gated_by_ok(fms, inner[0][0], ins[0][0])
        rep.ob("C09.R5", "the memo is written only after the inner check returned Ok", ok, "", fms.loc())
        okk = len(ph) == 2
        if okk:
            ph.sort(key=lambda x: x[0])
            okk = [fms.resolve_operand(p[1]["args"][0])[0] for p in ph] == [2, 3]
        rep.ob("C09.R5", "the memo key is (hash(writer), hash(reader))", okk, "", fms.loc())

    rep.floor("C09", "obligations", len(rep.obligations), 150)
    rep.not_decided = ["soundness for composite schemas with particular values (records, unions, arrays, maps recurse into the same cells)", "recursion through names / the memo's pointer identity at run time"]
    return common.finish(rep, level="other",
                         explanation="variant-partitioned path summary of the compatibility checker over all schema shape pairs (which pairs answer Full on every path) cross-checked with the resolver's acceptance table and the decoder's value table; lattice, symmetry, safe-step and memo shape rules",
                         assumptions=["the decoder builds V(W) for writer shape W (C06.R2)", "resolve_* functions are the only way a reader schema is applied to a decoded value"], evidence_dir=evidence_dir)
