"""C10 — serializing a parsed schema to JSON and parsing it again preserves the schema.

Structural clauses decided (serializer <-> parser agreement, per node kind):
 R1 keys        (a) every key the serializer writes *explicitly* for a node kind is one the parser treats as structural for
                that kind (else the parser stores it a second time as a custom attribute and the next serialization writes it
                twice: duplicate keys, not strict JSON); (b) every structural key the parser reads for a kind is written.
                Kinds: record, enum, fixed, array, map, record field; decimal/uuid/duration on fixed inherit fixed's keys.
 R2 logical types  the `logicalType` literal written for each logical shape is the literal on whose match the parser builds
                that same shape (13 names), and the base `type` written for it is among the kinds the parser accepts for it.
 R3 names       named kinds write `name` as the simple name and `namespace` on every path that writes `name`
                (a null namespace has to be written too, else the type is re-parsed into the enclosing namespace);
                references are written as the full name.
 R4 primitives  the 8 primitive names written are the names parse_known_schema maps back to the same variant.
Not decided: escaping, defaults of every JSON kind, attribute values, text identity of the second serialization.
"""
import facts as factsmod
from mir import Program, callee_names, op_local, calls_named, edge_only_region
import common
import shape
from wire import Wire, rpo
from vpes import top_shapes

P = "schema::parser::Parser::"
KIND_OF_TYPE = {"int": "Int", "long": "Long", "bytes": "Bytes", "string": "String", "fixed": "Fixed", "float": "Float", "double": "Double", "boolean": "Boolean", "null": "Null"}


_PROG = None


def entries(body, reg):
    out = []
    for bi in rpo(body, reg):
        t = body.blocks[bi]["term"]
        if t["t"] != "call":
            continue
        nm = callee_names(t["func"])
        if not nm:
            continue
        if nm[0] == "serde::ser::SerializeMap::serialize_entry":
            out.append(("entry", body.op_str(t["args"][1]), body.op_str(t["args"][2]), bi))
        elif nm[0] == "serde::Serializer::serialize_str":
            out.append(("str", body.op_str(t["args"][1]), None, bi))
        elif _PROG is not None and any(n in _PROG.bodies and _PROG.bodies[n].crate == "apache_avro" and _PROG.bodies[n].kind != "Closure" and "serialize_to_map" not in n
                                        and not n.endswith("::serialize") for n in nm) and any(body.op_str(a) is not None for a in t["args"]):
            # a local helper that writes entries from its string parameters: `helper(serializer, "long", "time-micros")`
            cal = [_PROG.bodies[n] for n in nm if n in _PROG.bodies][-1]
            for kind2, k2, v2, bi2 in entries(cal, set(range(cal.n))):
                if kind2 != "entry":
                    continue
                if v2 is None:
                    ct = cal.blocks[bi2]["term"]
                    r_ = cal.resolve_operand(ct["args"][2]) if ct["args"][2].get("k") in ("copy", "move") else None
                    if r_ and 1 <= r_[0] <= cal.argc and r_[0] - 1 < len(t["args"]):
                        v2 = body.op_str(t["args"][r_[0] - 1])
                out.append(("entry", k2, v2, bi))
        elif any("serialize_to_map" in n for n in nm):
            skip = []
            if len(t["args"]) > 2:
                ci = body.op_const(t["args"][-1])
                skip = ci.get("strs_seq", []) or ci.get("strs", []) or ([ci["str"]] if "str" in ci else [])
            out.append(("fixedmap", None, list(skip), bi))
    return out


def run(rep, tier="quick", replay=None, evidence_dir=None):
    prog = Program(factsmod.extract())
    global _PROG
    _PROG = prog
    rep.rule("C10.R1", "keys written explicitly per node kind = keys the parser treats as structural for that kind")
    rep.rule("C10.R2", "logicalType names and base types agree between serializer and parser")
    rep.rule("C10.R3", "namespace is written wherever name is; references are written as full names")
    rep.rule("C10.R4", "primitive type names agree")
    w = Wire(prog)
    ser = prog.body("<schema::Schema as serde::Serialize>::serialize")
    vp = w.vpes(ser)
    root = list(vp.roots)[0]
    fx = prog.body("schema::FixedSchema::serialize_to_map")
    fld = prog.body("<schema::record::field::RecordField as serde::Serialize>::serialize")
    fixed_entries = entries(fx, set(range(fx.n)))
    fixed_keys = [k for kind, k, v, bi in fixed_entries if kind == "entry" and k]
    S = {}          # top-level shape -> {"keys": set, "logical": literal, "type": literal, "paths": [...]}
    for s, reg in top_shapes(vp, root):
        full = vp.shape_name(s, root)
        top = full.split("(")[0] if full.split("(")[0] in ("Record", "Enum") else full
        e = entries(ser, reg)
        d = S.setdefault(top, {"keys": set(), "logical": set(), "type": set(), "str": set(), "fixedmap": False, "regs": []})
        d["regs"].append(reg)
        for kind, k, v, bi in e:
            if kind == "entry" and k:
                d["keys"].add(k)
                if k == "logicalType" and v:
                    d["logical"].add(v)
                if k == "type" and v:
                    d["type"].add(v)
            elif kind == "str":
                d["str"].add(k)
            elif kind == "fixedmap":
                d["fixedmap"] = True
                d.setdefault("skip", set()).update(v or [])
                d["keys"] |= set(fixed_keys)
                d["type"].add("fixed")
    rep.analysed["serializer shapes"] = len(S)
    rep.floor("C10.R1", "serializer shapes", len(S), 31)

    # ---------------- parser side: structural keys
    gca = prog.body(P + "get_custom_attributes")
    base = set(x for x in gca.literals())
    per_kind = {}
    for fn, kind in ((P + "parse_record", "Record"), (P + "parse_enum", "Enum"), (P + "parse_fixed", "Fixed"), (P + "parse_array", "Array"), (P + "parse_map", "Map")):
        b = prog.bodies.get(fn)
        if b is None:
            rep.anchor_error("C10.R1", fn)
            continue
        c = calls_named(b, P + "get_custom_attributes")
        ex = set()
        for bi, t in c:
            ci = b.op_const(t["args"][2])
            ex |= set(ci.get("strs_seq", []) or ci.get("strs", []) or ([ci["str"]] if "str" in ci else []))
        rep.ob("C10.R1", "%s collects its custom attributes once" % fn.split("::")[-1], len(c) == 1, "found %d calls" % len(c), b.loc())
        per_kind[kind] = base | ex
    fca = prog.body("schema::record::field::RecordField::get_field_custom_attributes")
    per_kind["Field"] = set(fca.literals())
    rep.sample({"parser structural keys": dict((k, sorted(v)) for k, v in per_kind.items())})
    # keys each parse function actually reads (`complex.get("x")`, `.name()`, `.doc()`, `.aliases()`, `.string("namespace")`)
    reads = {"Record": {"type", "name", "namespace", "doc", "aliases", "fields"}, "Enum": {"type", "name", "namespace", "doc", "aliases", "symbols", "default"},
             "Fixed": {"type", "name", "namespace", "doc", "aliases", "size"}, "Array": {"type", "items"}, "Map": {"type", "values"}, "Field": {"name", "type", "default", "doc", "aliases"}}
    ser_kind = {"Record": S.get("Record", {}).get("keys", set()), "Enum": S.get("Enum", {}).get("keys", set()), "Fixed": set(fixed_keys) | {"type"},
                "Array": S.get("Array", {}).get("keys", set()), "Map": S.get("Map", {}).get("keys", set()),
                "Field": set(k for kind, k, v, bi in entries(fld, set(range(fld.n))) if kind == "entry" and k)}
    for kind in sorted(per_kind):
        for k in sorted(ser_kind[kind]):
            rep.ob("C10.R1", "%s: written key %r is structural for the parser" % (kind, k), k in per_kind[kind],
                   "the serializer writes %r for a %s, the parser does not exclude it from the custom attributes of that kind: it is stored again and written twice on the next serialization" % (k, kind), "")
        for k in sorted(reads[kind]):
            rep.ob("C10.R1", "%s: structural key %r is written" % (kind, k), k in ser_kind[kind], "the parser reads %r for a %s but the serializer never writes it" % (k, kind), "")
    # keys the parser takes off the fixed's attributes when it turns the fixed into a logical type (written by the logical type)
    pc0 = prog.body(P + "parse_complex")
    removed = set()
    for cb in prog.with_closures(pc0):
        for bi, t in calls_named(cb, "std::collections::BTreeMap::<K, V, A>::remove"):
            if "attributes" in cb.opdesc(t["args"][0]):
                k = cb.op_str(t["args"][1])
                if k:
                    removed.add(k)
    rep.analysed["keys the parser removes from a fixed's custom attributes"] = len(removed)
    # ... or that the logical type's arm tells serialize_to_map not to write from the fixed's attributes: the attribute loop must test the list
    skip_honoured = False
    for bi, t in fx.calls():
        nm = callee_names(t["func"])
        if nm and nm[0].endswith("::contains") and t["args"] and fx.resolve_operand(t["args"][0]) and fx.resolve_operand(t["args"][0])[0] == 3:
            sw = shape.call_bool_switch(fx, bi)
            attr_entries = [x for kind, k, v, x in fixed_entries if kind == "entry" and k is None]
            if sw and attr_entries:
                regt = edge_only_region(fx, sw[0], sw[2])
                regf = edge_only_region(fx, sw[0], sw[1])
                skip_honoured = regf is not None and any(x in regf for x in attr_entries) and not (regt and any(x in regt for x in attr_entries))
    # logical types on fixed: keys written besides the fixed map must be structural for parse_fixed (it parses the object first)
    for shp in sorted(S):
        d = S[shp]
        if not d["fixedmap"] or shp == "Fixed":
            continue
        extra = d["keys"] - set(fixed_keys) - {"type"}
        for k in sorted(extra):
            rep.ob("C10.R1", "%s: key %r written next to the fixed's keys is structural for parse_fixed" % (shp, k), k in per_kind.get("Fixed", set()) or k in removed or (k in d.get("skip", set()) and skip_honoured),
                   "parse_fixed keeps %r as a custom attribute of the fixed, the %s serializer writes it explicitly as well: after one round trip the object has the key twice (duplicate keys are not strict JSON)" % (k, shp),
                   ser.loc())

    # custom attributes survive: inside each attribute loop the entry is written for every key (the only admissible guard is
    # the caller's written_by_caller list): no comparison of the key with a string literal
    for body, what in ((fx, "FixedSchema::serialize_to_map"), (ser, "Schema::serialize"), (fld, "RecordField::serialize")):
        loops = body.loops()
        bad = []
        n_attr = 0
        for kind, k, v, bi in entries(body, set(range(body.n))):
            if kind != "entry" or k is not None:
                continue
            lp = shape.loop_of(body, bi)
            if lp is None:
                continue
            n_attr += 1
            for x in lp[1]:
                t = body.blocks[x]["term"]
                if t["t"] == "call":
                    nm = callee_names(t["func"])
                    if nm and nm[0] in ("std::cmp::PartialEq::eq", "std::cmp::PartialEq::ne") and any(body.op_str(a) is not None for a in t["args"]):
                        bad.append([body.op_str(a) for a in t["args"] if body.op_str(a) is not None][0])
        # ... and the loop walks the attribute map itself, not a filtered view of it
        DROPPING = ("Filter", "FilterMap", "Skip", "SkipWhile", "Take", "TakeWhile", "StepBy", "Flatten", "FlatMap")
        for kind, k, v, bi in entries(body, set(range(body.n))):
            if kind != "entry" or k is not None:
                continue
            lp = shape.loop_of(body, bi)
            if lp is None:
                continue
            for x in sorted(lp[1]):
                t = body.blocks[x]["term"]
                if t["t"] == "call" and callee_names(t["func"])[0] == "std::iter::Iterator::next":
                    ity = str((t["func"].get("ga") or [""])[0])
                    import re as _re
                    words = set(_re.findall(r"[A-Za-z_]+", ity))
                    if words & set(DROPPING):
                        bad.append("<iterator %s>" % ity[:60])
                    elif "impl" in words or "dyn" in words:
                        # an opaque iterator from a local helper: the helper must not drop entries either
                        helper_bad = None
                        for hb, ht in body.calls():
                            for n_ in callee_names(ht["func"]):
                                h = prog.bodies.get(n_)
                                if h is not None and h.crate == "apache_avro" and ("impl" in h.ret or "dyn" in h.ret) and "Iterator" in h.ret:
                                    for hh in prog.with_closures(h):
                                        for _, t2 in hh.calls():
                                            if callee_names(t2["func"])[0].split("::")[-1] in ("filter", "filter_map", "skip", "skip_while", "take", "take_while", "step_by", "flatten", "flat_map"):
                                                helper_bad = h.path
                        if helper_bad:
                            bad.append("<filtered by %s>" % helper_bad)
        # a guard of the form `LIST.contains(key)` around the write: every name on a constant list must be a key this serializer
        # writes itself (then the attribute would be a duplicate); anything else on the list is silently lost
        explicit = set(k for kind, k, v, bi in entries(body, set(range(body.n))) if kind == "entry" and k is not None)
        for kind, k, v, bi in entries(body, set(range(body.n))):
            if kind != "entry" or k is not None:
                continue
            lp = shape.loop_of(body, bi)
            if lp is None:
                continue
            for x in sorted(lp[1]):
                t = body.blocks[x]["term"]
                if t["t"] == "call" and callee_names(t["func"])[0].endswith("::contains") and t["args"]:
                    names_ = None
                    a0 = t["args"][0]
                    ci = body.op_const(a0) if a0.get("k") == "const" else None
                    if ci and ci.get("strs"):
                        names_ = ci["strs"]
                    if names_ is None and a0.get("k") in ("copy", "move"):
                        r_ = body.resolve_operand(a0)
                        if r_:
                            sd_ = body.single_def(r_[0])
                            if sd_ and sd_[2] == "assign" and sd_[3]["r"] == "use" and sd_[3]["o"].get("k") == "const":
                                ci = body.op_const(sd_[3]["o"])
                                if ci and ci.get("strs"):
                                    names_ = ci["strs"]
                                elif sd_[3]["o"].get("item"):
                                    try:
                                        names_ = prog.const(sd_[3]["o"]["item"]).get("strs")
                                    except KeyError:
                                        names_ = None
                    if names_:
                        lost = sorted(set(names_) - explicit)
                        if lost:
                            bad.append("<list: %s>" % ", ".join(lost))
        rep.ob("C10.R1", "%s writes every custom attribute (no key is filtered out by name)" % what, n_attr >= 1 and not bad,
               "attribute loop skips keys %s: a custom attribute with that name is lost on a JSON round trip (and from file headers)" % sorted(set(bad)) if bad else "no attribute loop found", body.loc())
    # ---------------- R2 logical types
    pc = prog.body(P + "parse_complex")
    fam = dict((c.key, c) for c in prog.with_closures(pc))
    ltab = {}
    kinds_ok = {}
    for bi, t in pc.calls():
        nm = callee_names(t["func"])
        if not nm or nm[0] != "std::cmp::PartialEq::eq":
            continue
        lit = None
        for a in t["args"]:
            lit = lit or pc.op_str(a)
        if lit is None:
            continue
        sw = shape.call_bool_switch(pc, bi)
        if not sw:
            continue
        reg = edge_only_region(pc, sw[0], sw[2]) or set()
        built = set()
        kinds = set()
        for x in reg:
            for st in pc.blocks[x]["stmts"]:
                if st["s"] == "assign" and st["rv"]["r"] == "agg" and st["rv"].get("ak") == "closure" and st["rv"]["def"] in fam:
                    cb = fam[st["rv"]["def"]]
                    for _, st2 in shape.aggregates(cb, "schema::Schema"):
                        built.add(st2["rv"]["variant"])
                    for _, st2 in shape.aggregates(cb, "schema::UuidSchema"):
                        built.add("Uuid(%s)" % st2["rv"]["variant"])
            tt = pc.blocks[x]["term"]
            if tt["t"] == "call":
                for a in tt["args"]:
                    ci = pc.op_const(a)
                    for (adt, var) in ci.get("variants", []):
                        if adt == "schema::SchemaKind":
                            kinds.add(var)
        if built or kinds:
            ltab[lit] = built
            kinds_ok[lit] = kinds
    rep.analysed["logicalType names the parser matches"] = len(ltab)
    rep.floor("C10.R2", "logicalType names in the parser", len(ltab), 13)
    n_l = 0
    for shp in sorted(S):
        d = S[shp]
        if not d["logical"]:
            continue
        n_l += 1
        lit = sorted(d["logical"])[0]
        want = shp.split("(")[0]
        built = ltab.get(lit, set())
        okb = want in built or shp in built or any(x.startswith(want) for x in built)
        rep.ob("C10.R2", "%s is written as logicalType %r, on which the parser builds %s" % (shp, lit, want), len(d["logical"]) == 1 and okb,
               "the parser's arm for %r builds %s" % (lit, sorted(built) or "nothing (unknown logical type: ignored with a warning)"), ser.loc())
        for ty in sorted(d["type"]):
            rep.ob("C10.R2", "%s is written on base type %r, which the parser accepts for %r" % (shp, ty, lit), KIND_OF_TYPE.get(ty) in kinds_ok.get(lit, set()),
                   "supported kinds for %r: %s" % (lit, sorted(kinds_ok.get(lit, set()))), ser.loc())
    rep.floor("C10.R2", "logical shapes in the serializer", n_l, 16)

    # ---------------- R3 names
    for shp, body, reg_list in (("Record", ser, S.get("Record", {}).get("regs", [])), ("Enum", ser, S.get("Enum", {}).get("regs", [])), ("Fixed", fx, [set(range(fx.n))])):
        for reg in reg_list[:1] if shp == "Fixed" else reg_list:
            e = entries(body, reg)
            name_b = [bi for kind, k, v, bi in e if kind == "entry" and k == "name"]
            ns_b = [bi for kind, k, v, bi in e if kind == "entry" and k == "namespace"]
            ok = bool(name_b) and bool(ns_b) and all(any(body.dominates(nb, x) or body.postdominates(nb, x) for nb in ns_b) and not _skippable(body, reg, ns_b, x) for x in name_b)
            rep.ob("C10.R3", "%s writes `namespace` on every path that writes `name`" % shp, ok,
                   "the namespace entry is skipped when the name has no namespace: a null-namespace %s nested in a namespaced type is re-parsed into the enclosing namespace (its full name changes)" % shp.lower(),
                   body.loc(name_b[0]) if name_b else body.loc())
            break
    refd = S.get("Ref", {})
    okr = False
    for reg in refd.get("regs", []):
        for bi in reg:
            t = ser.blocks[bi]["term"]
            if t["t"] == "call" and callee_names(t["func"])[0].endswith("Name::fullname"):
                okr = True
    rep.ob("C10.R3", "a reference is written as the full name", okr, "", ser.loc())
    # ---------------- R4 primitives
    pk = prog.body(P + "parse_known_schema")
    ptab = {}
    for bi, t in pk.calls():
        nm = callee_names(t["func"])
        if nm and nm[0] == "std::cmp::PartialEq::eq":
            lit = None
            for a in t["args"]:
                lit = lit or pk.op_str(a)
            sw = shape.call_bool_switch(pk, bi)
            if lit and sw:
                reg = edge_only_region(pk, sw[0], sw[2]) or set()
                for x in reg:
                    for st in pk.blocks[x]["stmts"]:
                        if st["s"] == "assign" and st["rv"]["r"] == "agg" and st["rv"].get("adt") == "schema::Schema":
                            ptab.setdefault(lit, st["rv"]["variant"])
    rep.floor("C10.R4", "primitive names in the parser", len(ptab), 8)
    for shp in ("Null", "Boolean", "Int", "Long", "Float", "Double", "Bytes", "String"):
        lit = sorted(S.get(shp, {}).get("str", []))
        rep.ob("C10.R4", "%s is written as a name the parser maps back to %s" % (shp, shp), len(lit) == 1 and ptab.get(lit[0]) == shp, "written %s, parser table %s" % (lit, ptab), ser.loc())

    # ---------------- R5 (imported): names and aliases get the namespaces the serializer will write back (C11.R4 instances)
    rep.rule("C10.R5", "the parser assigns namespaces to names and aliases consistently (C11.R4 instances): what is written back re-parses to the same full names")
    import c11
    sub = common.Report("C11", tier, 0)
    c11.run(sub, tier=tier, collect_only=True)
    n5 = 0
    for o in sub.obligations:
        if o["rule"] == "C11.R4":
            n5 += 1
            rep.ob("C10.R5", "[C11.R4] " + o["instance"], o["ok"], o["detail"], o["loc"])
    rep.floor("C10.R5", "imported namespace obligations", n5, 20)

    rep.floor("C10", "obligations", len(rep.obligations), 110)
    rep.not_decided = ["escaping and number formatting (serde_json)", "defaults of every JSON kind, attribute values", "text identity of the second serialization for concrete schemas"]
    return common.finish(rep, level="other",
                         explanation="literal/key tables of the Schema, FixedSchema and RecordField serializers (variant-partitioned) against the parser's structural-key sets, logicalType match arms (closure-built shapes and supported kinds) and primitive name table",
                         assumptions=["serde_json writes the entries in call order and never merges duplicate keys"], evidence_dir=evidence_dir)


def _skippable(body, reg, ns_blocks, name_block):
    """can `name_block` be reached from the entry inside the region while avoiding every namespace-entry block?"""
    avoid = set(ns_blocks)
    seen = set()
    st = [0]
    while st:
        x = st.pop()
        if x in seen or x in avoid or x not in reg:
            continue
        seen.add(x)
        st.extend(body.succ[x])
    return name_block in seen
