"""abandoned trial encodings: a call that encodes into a byte buffer the function keeps using after the call *failed*
(the Err edge of the call's result does not leave the function) must be followed, on that edge, by a clear / truncate of
the buffer before the buffer is used again. Otherwise the bytes of the failed attempt are emitted in front of the next one
(e.g. the encoder trying each record branch of a union in turn).

Instances are discovered, not listed: every call in the crate with a `&mut Vec<u8>` local (not a parameter, not a field)
among its arguments whose result is a Result that is branched on."""
from mir import callee_names, result_edges, op_local
from shape import bool_switch

RESET = ("std::vec::Vec::<T, A>::clear", "std::vec::Vec::<T, A>::truncate")


def result_branches(b, res_local, _depth=0):
    """(switch block, ok target, err target) for every branch on the Result in res_local: match / `?` / is_ok() / is_err()"""
    out = list(result_edges(b, res_local))
    # the result may pass through combinators first (`.map_err(..)`, `.and_then(..)`): branch on their result
    for bi, t in b.calls():
        nm = callee_names(t["func"])
        if nm and nm[0].startswith("std::result::Result::<T, E>::") and nm[0].split("::")[-1] in ("and_then", "map", "map_err", "or_else", "and", "inspect", "inspect_err") \
                and t["args"] and t["args"][0].get("k") in ("copy", "move") and not t["args"][0]["pl"]["p"] and t["args"][0]["pl"]["l"] == res_local and not t["dest"]["p"] and _depth < 4:
            out += result_branches(b, t["dest"]["l"], _depth + 1)
    for bi, t in b.calls():
        nm = callee_names(t["func"])
        if nm and nm[0] in ("std::result::Result::<T, E>::is_ok", "std::result::Result::<T, E>::is_err") and t["args"]:
            r = b.resolve_operand(t["args"][0])
            if r and r[0] == res_local and not [p for p in r[1] if p not in ("*", "&")]:
                sw = bool_switch(b, t["dest"]["l"])
                if sw:
                    out.append((sw[0], sw[2], sw[1]) if nm[0].endswith("is_ok") else (sw[0], sw[1], sw[2]))
    return out


def is_local_vec_u8(b, l):
    ty = b.local_ty(l) or ""
    return l > b.argc and ty.replace(" ", "").startswith("std::vec::Vec<u8")


def buffer_arg(b, t):
    """the local Vec<u8> this call receives by `&mut`, if any"""
    for a in t["args"]:
        if a.get("k") not in ("copy", "move"):
            continue
        r = b.resolve_operand(a)
        if not r:
            continue
        root, projs = r
        if [p for p in projs if p not in ("*", "&")]:
            continue
        if is_local_vec_u8(b, root) and "&mut" in (b.local_ty(a["pl"]["l"]) or "&mut" if a["pl"]["l"] != root else ""):
            return root
    return None


def uses_buffer(b, bi, buf):
    t = b.blocks[bi]["term"]
    if t["t"] != "call":
        return False
    nm = callee_names(t["func"])
    if nm and nm[0] in RESET:
        return False
    for a in t["args"]:
        if a.get("k") in ("copy", "move"):
            r = b.resolve_operand(a)
            if r and r[0] == buf:
                return True
    return False


def scan(prog, crate="apache_avro"):
    """list of dicts: fn, callee, loc, swallowed (bool), ok (bool), detail"""
    out = []
    for key, b in prog.bodies.items():
        if b.crate != crate:
            continue
        for bi, t in b.calls():
            if t["dest"]["p"]:
                continue
            ty = (b.local_ty(t["dest"]["l"]) or "")
            if "Result<" not in ty:
                continue
            buf = buffer_arg(b, t)
            if buf is None:
                continue
            nm = callee_names(t["func"])
            if nm and nm[0] in RESET:
                continue
            for sw, ok_t, err_t in result_branches(b, t["dest"]["l"]):
                if err_t is None:
                    continue
                # blocks reachable on the failure edge without passing a reset of the buffer
                resets = set(x for x, tt in b.calls() if callee_names(tt["func"])[0] in RESET and tt["args"] and (b.resolve_operand(tt["args"][0]) or [None])[0] == buf)
                reach = b.reachable(err_t, avoid=resets)
                reuse = sorted(x for x in reach if uses_buffer(b, x, buf))
                trial = any(uses_buffer(b, x, buf) for x in b.reachable(err_t))
                out.append({"fn": b.key, "callee": nm[0] if nm else "?", "loc": b.loc(bi), "buffer": b.local_name(buf) or ("_%d" % buf),
                            "swallowed": trial, "ok": not reuse,
                            "detail": "" if not reuse else "after the call failed the buffer is used again at %s without Vec::clear / truncate in between" % b.loc(reuse[0])})
    return out
