"""C06 — a successfully decoded value always conforms to the schema.

Structural clauses decided:
 R1  no `Ok(..)` is produced in the CFG region that is only reachable through the *Err edge* of a
     match on the result of a read call (a truncated datum is never completed with an invented
     value), and no read result is consumed by unwrap_or*/ok()/is_ok (which invent or hide it).
     Applies to every function of the reading set: both decoders, container and single-object readers.
 R2  variant conformance (VPES): for every schema shape S, the Value variants constructed on Ok
     exits of decode_internal(S) are accepted by validate_internal for S.   [rules/vpes based]
 R3  the schema-aware deserializer obeys R1 as well (same scan), so both decoders map end of input
     to Err in every arm.
"""
import facts as factsmod
from mir import Program, callee_names, op_local, edge_only_region
import common
import readset


def scan_ok_after_failed_read(prog, rep, rule, only=None):
    readfns = readset.read_functions(prog)
    rep.analysed["functions in the reading set (Read-bounded, by role)"] = len(readfns)
    n_switch = 0
    n_q = 0
    n_seeds = 0
    hits = []
    for key, b in sorted(readfns.items()):
        if only and not only(b):
            continue
        seeds, origin = readset.read_results(b, readfns, prog)
        n_seeds += len(seeds)
        if not seeds:
            continue
        # (a) explicit matches on the read result
        for (sw, ok_t, err_t, (callee, cbi)) in readset.err_edges(b, origin):
            n_switch += 1
            region = readset.edge_region(b, sw, err_t)
            if region is None:
                rep.count("err edges with shared target (not decided)")
                continue
            oks = readset.ok_constructions(b, region)
            inst = "%s Ok after failed %s" % (b.path, short(callee))
            k = sum(1 for o in rep.obligations if o["rule"] == rule and o["instance"].startswith(inst))
            if k:
                inst += " #%d" % (k + 1)
            rep.ob(rule, inst, not oks,
                   "an Ok value is constructed on a path that is only reachable after %s returned Err: end of input / read failure is turned into a value" % short(callee),
                   b.loc(oks[0][0], oks[0][1].get("ln")) if oks else b.loc(sw))
            if oks:
                hits.append(inst)
        # (b) `?` on a read result is fine; count them for the floor
        for bi, t in b.calls():
            names = callee_names(t["func"])
            if names and names[0] == "std::ops::Try::branch" and t["args"] and op_local(t["args"][0]) in origin:
                n_q += 1
            if names and names[0] in readset.INVENTORS and t["args"] and op_local(t["args"][0]) in origin:
                callee = origin[op_local(t["args"][0])][0]
                inst = "%s %s on result of %s" % (b.path, names[0].split("::")[-1], short(callee))
                rep.ob(rule, inst, False, "the Err of a read is replaced by an invented value or discarded (%s)" % names[0], b.loc(bi))
    rep.analysed["read call results tracked"] = n_seeds
    rep.analysed["explicit matches on a read result (Err edge examined)"] = n_switch
    rep.analysed["`?` propagations of a read result"] = n_q
    return n_switch, n_q, n_seeds


def short(c):
    return c.split("::<")[0].replace("std::io::", "") if c.startswith("std::io::") else c


def run(rep, tier="quick", replay=None, evidence_dir=None, collect_only=False):
    prog = Program(factsmod.extract())
    rep.rule("C06.R1", "no Ok constructed in the region dominated by the Err edge of a read result; no unwrap_or/ok() on a read result")
    n_switch, n_q, n_seeds = scan_ok_after_failed_read(prog, rep, "C06.R1")
    rep.floor("C06.R1", "read call results tracked", n_seeds, 150)
    rep.floor("C06.R1", "`?` propagations + explicit matches of read results", n_q + n_switch, 100)
    import c06_vpes
    c06_vpes.run(prog, rep)
    # ---------------- R4: a read that may return fewer bytes than asked for must have its count looked at
    rep.rule("C06.R4", "reads from the caller's reader are exact: read_exact, or the count returned by read / read_to_end is inspected")
    readfns = readset.read_functions(prog)
    n4 = 0
    for key, b in sorted(readfns.items()):
        params = set(readset.read_params(b, prog))
        for bi, t in b.calls():
            nm = callee_names(t["func"])
            if not nm or nm[0] not in ("std::io::Read::read", "std::io::Read::read_to_end", "std::io::Read::read_to_string", "std::io::Read::read_buf"):
                continue
            ga = " ".join(t["func"].get("ga") or [])
            import re as _re
            if not any(_re.search(r"(^|[^A-Za-z0-9_])%s($|[^A-Za-z0-9_])" % _re.escape(p_), ga) for p_ in params):
                continue   # not the caller-supplied reader (e.g. a decompressor over an in-memory block: its whole output is wanted)
            if nm[0] != "std::io::Read::read" and "Take<" not in ga:
                continue   # reading a whole stream to its end (schema text): there is no declared length to fall short of
            n4 += 1
            # the usize inside the io::Result must reach a comparison / switch (Ok(0), n == len ...)
            d = t["dest"]["l"]
            from mir import forward_taint
            tainted = forward_taint(b, [d], through_calls=True)
            inspected = False
            for sbi in range(b.n):
                tt = b.blocks[sbi]["term"]
                if tt["t"] == "switch" and op_local(tt["discr"]) in tainted and "usize" in b.local_ty(op_local(tt["discr"])):
                    inspected = True
            for _, _, st in b.stmts():
                if st["s"] == "assign" and st["rv"]["r"] == "bin" and st["rv"]["op"] in ("Eq", "Ne", "Lt", "Le", "Gt", "Ge"):
                    for o in (st["rv"]["a"], st["rv"]["b"]):
                        if op_local(o) in tainted and "usize" in b.local_ty(op_local(o)):
                            inspected = True
            rep.ob("C06.R4", "%s inspects the byte count returned by %s" % (b.path, nm[0].split("::")[-1]), inspected,
                   "a short read (end of input inside the item) is taken for a complete item: the decoder returns Ok with fewer bytes than the datum declares", b.loc(bi))
            if nm[0] == "std::io::Read::read":
                # `read` may return fewer bytes than asked for without the input having ended: it has to be retried (a loop),
                # unless the buffer holds a single byte (then the count is 0 or 1 and there is nothing to retry)
                one = False
                if len(t["args"]) > 1 and t["args"][1].get("k") in ("copy", "move"):
                    r_ = b.resolve_operand(t["args"][1])
                    if r_:
                        one = (b.local_ty(r_[0]) or "").replace(" ", "") == "[u8;1]"
                rep.ob("C06.R4", "%s retries a partial Read::read (loop) or reads a single byte" % b.path, b.in_loop(bi) or one,
                       "one call of Read::read is taken for the whole item: a reader that legitimately returns fewer bytes (a buffer boundary, a socket) makes a complete datum fail or be cut", b.loc(bi))
    rep.analysed["count-returning reads on a caller-supplied reader"] = n4
    rep.floor("C06.R4", "count-returning reads examined", n4, 1)
    # ---------------- R5: Option::None is produced only for the union's null branch
    do = prog.bodies.get("<serde::deser_schema::SchemaAwareDeserializer<'s, 'r, R, S> as serde::Deserializer<'de>>::deserialize_option")
    if do is None:
        rep.anchor_error("C06.R5", "deserialize_option")
    else:
        rep.rule("C06.R5", "the schema-aware deserializer answers None only when the selected union branch is null")
        vn = [(bi, t) for bi, t in do.calls() if callee_names(t["func"])[0].endswith("Visitor::visit_none")]
        ok = len(vn) == 1
        if ok:
            ok = False
            for bi, si, st in do.stmts():
                if st["s"] == "assign" and st["rv"]["r"] == "discr" and st["rv"].get("adt") == "schema::Schema":
                    root, projs = do.resolve_place(st["rv"]["pl"])
                    if root == 1:
                        continue   # the switch on self.schema (is it a union at all)
                    dl = st["pl"]["l"]
                    for sbi in range(do.n):
                        tt = do.blocks[sbi]["term"]
                        if tt["t"] == "switch" and op_local(tt["discr"]) == dl:
                            adt = prog.adt("schema::Schema")
                            null_idx = [v["name"] for v in adt["variants"]].index("Null")
                            tg = dict(tt["targets"])
                            nt = tg.get(null_idx)
                            if nt is not None and do.dominates(nt, vn[0][0]) and edge_only_region(do, sbi, nt) is not None:
                                ok = True
        rep.ob("C06.R5", "deserialize_option calls visit_none only on the Null edge of the selected branch's schema", ok,
               "a non-null branch decoded as None leaves its datum unread: the deserializer accepts bytes the generic decoder rejects, and Some(x) comes back as None", do.loc())
    # ---------------- R6: the container reader decodes from a buffer that holds exactly the declared block
    rep.rule("C06.R6", "the block buffer the decoders read from holds exactly the declared block: fill_buf sets its length on every path before reading into it")
    fb = prog.bodies.get("reader::block::Block::<'r, R>::fill_buf")
    if fb is None:
        rep.anchor_error("C06.R6", "reader::block::Block::fill_buf")
    else:
        from mir import calls_named
        rd = [(bi, t) for bi, t in calls_named(fb, "std::io::Read::read_exact")]
        sizers = [(bi, t) for bi, t in calls_named(fb, "std::vec::Vec::<T, A>::resize") if "self.buf" in fb.opdesc(t["args"][0])]
        # or the buffer is replaced wholesale
        repl = [bi for bi, si, st in fb.stmts() if st["s"] == "assign" and st["pl"]["p"] and fb.pldesc(st["pl"]).endswith("self.buf")]
        if rep.ob("C06.R6", "fill_buf reads the block with one read_exact", len(rd) == 1, "found %d" % len(rd), fb.loc()):
            r_bi = rd[0][0]
            dom = [bi for bi, t in sizers if fb.dominates(bi, r_bi)] + [bi for bi in repl if fb.dominates(bi, r_bi)]
            rep.ob("C06.R6", "fill_buf: the buffer is given the block's length on every path to the read (Vec::resize dominates read_exact)", bool(dom),
                   "when the buffer keeps a larger length, bytes of an earlier block stay visible behind the current one: a short block or an overstated object count is completed from stale bytes instead of failing", fb.loc(r_bi))
            # the size comes from the parameter (through the allocation guard)
            okn = False
            for bi, t in sizers:
                a = t["args"][1]
                cr = fb.call_result_of(a)
                cur = a
                for _ in range(4):
                    r = fb.resolve_operand(cur) if cur.get("k") in ("copy", "move") else None
                    if r and r[0] == 2:
                        okn = True
                        break
                    cr = fb.call_result_of(cur)
                    if not cr or not cr[1]["args"]:
                        break
                    cur = cr[1]["args"][0]
            rep.ob("C06.R6", "fill_buf: the new length is the declared block size", okn or bool(repl), "", fb.loc())
            # read_exact fills the buffer itself (whole), not a longer or shorter view
            a = rd[0][1]["args"][1]
            desc = fb.opdesc(a)
            rep.ob("C06.R6", "fill_buf: read_exact fills the whole buffer", "self.buf" in desc and "[" not in desc.replace("self.buf", ""), "reads into %s" % desc, fb.loc(r_bi))
    for fn in ("reader::block::Block::<'r, R>::read_next", "reader::block::Block::<'r, R>::read_next_deser"):
        b = prog.bodies.get(fn)
        if b is None:
            rep.anchor_error("C06.R6", fn)
            continue
        # the slice handed to the decoder starts at buf_idx and runs to the end of the buffer
        idx = [(bi, t) for bi, t in b.calls() if callee_names(t["func"])[0] in ("std::ops::Index::index",) and "self.buf" in b.opdesc(t["args"][0])]
        rep.ob("C06.R6", "%s decodes from self.buf[self.buf_idx..]" % fn.split("::")[-1], len(idx) >= 1 and all("RangeFrom" in str(t["func"].get("ga")) or "RangeFrom" in (b.local_ty(op_local(t["args"][1])) or "") for bi, t in idx),
               "", b.loc())
    if collect_only:
        return rep
    rep.not_decided = ["validate(decode(b)) for concrete values (UTF-8, uuid text, decimal widths)", "re-encode equality"]
    return common.finish(rep, level="other",
                         explanation="static rules over MIR: (R1/R3) dominance query 'Ok constructed only reachable via the Err edge of a read result' over every Read-bounded function; (R2) variant-partitioned path summaries of decode_internal vs validate_internal",
                         assumptions=["read calls are identified by role (callee is std::io::Read::* or a local function with a Read-bounded parameter)"],
                         evidence_dir=evidence_dir)
