"""C05 continued: R2 declared counts, R3 overflow asserts on input-derived integers, R5 panic inventory."""
import os
import tomllib
from collections import Counter, defaultdict
from mir import callee_names, op_local, forward_taint
import common
import prov
import readset

PANIC_CALLS = {
    "core::panicking::panic": "panic",
    "core::panicking::panic_fmt": "panic",
    "core::panicking::panic_explicit": "panic",
    "core::panicking::unreachable_display": "panic",
    "core::panicking::assert_failed": "panic",
    "std::rt::begin_panic": "panic",
    "std::option::Option::<T>::unwrap": "unwrap",
    "std::option::Option::<T>::expect": "unwrap",
    "std::result::Result::<T, E>::unwrap": "unwrap",
    "std::result::Result::<T, E>::expect": "unwrap",
    "std::result::Result::<T, E>::unwrap_err": "unwrap",
    "std::result::Result::<T, E>::expect_err": "unwrap",
    "std::ops::Index::index": "index",
    "std::ops::IndexMut::index_mut": "index",
    "core::slice::<impl [T]>::copy_from_slice": "slice-len",
    "core::slice::<impl [T]>::clone_from_slice": "slice-len",
    "core::slice::<impl [T]>::split_at": "slice-len",
    "core::slice::<impl [T]>::split_at_mut": "slice-len",
    "std::vec::Vec::<T, A>::remove": "index",
    "std::vec::Vec::<T, A>::swap_remove": "index",
    "std::vec::Vec::<T, A>::insert": "index",
    "std::vec::Vec::<T, A>::drain": "index",
    "std::vec::Vec::<T, A>::split_off": "index",
    "std::string::String::split_off": "index",
    "core::str::<impl str>::split_at": "index",
    "std::cell::RefCell::<T>::borrow_mut": "refcell",
    "std::cell::RefCell::<T>::borrow": "refcell",
}


def load_toml(name):
    p = os.path.join(common.VERIF, "rules", "tables", name)
    if not os.path.exists(p):
        return {}
    with open(p, "rb") as fh:
        return tomllib.load(fh)


def panic_sites(b):
    """yield (kind, detail, block) of potential panic sites in body b after auto-discharge"""
    for bi, t in b.calls():
        names = callee_names(t["func"])
        if not names or names[0] not in PANIC_CALLS:
            continue
        kind = PANIC_CALLS[names[0]]
        if kind == "index":
            idx_ty = t["argtys"][1] if len(t.get("argtys", [])) > 1 else ""
            if "RangeFull" in idx_ty:
                continue        # x[..] never panics
            recv = t["argtys"][0]
            if ("HashMap" in recv or "BTreeMap" in recv or "serde_json::Map" in recv or "serde_json::Value" in recv) and "Index" in names[0]:
                kind = "map-index"
            kind = kind + ":" + ("range" if "Range" in idx_ty else "at")
        yield kind, names[0], bi
    for bi in range(b.n):
        t = b.blocks[bi]["term"]
        if t["t"] != "assert":
            continue
        k = t["kind"]
        if k in ("Misaligned", "NullPtr"):
            continue            # rustc-inserted debug pointer checks on references: cannot fail for safe references
        if k == "BoundsCheck":
            ln, ix = t["ops"]
            if ln.get("k") == "const" and ix.get("k") == "const" and "int" in ln and "int" in ix and ix["int"] < ln["int"]:
                continue        # constant index into a fixed-size array
            # index is a constant and len is constant array length
            yield "bounds", "BoundsCheck", bi
            continue
        if k.startswith("Overflow") or k in ("DivisionByZero", "RemainderByZero", "OverflowNeg"):
            continue            # handled by R3
        yield "assert:" + k, k, bi


def run(prog, rep, rset, rkeys, rf, cl, lg, guards):
    # ---------------- R5 panic inventory ----------------
    table = load_toml("c05_panic_sites.toml")
    budget = dict((e["kind"], e) for e in table.get("kind", []))
    found = defaultdict(list)
    for b in rset:
        for kind, what, bi in panic_sites(b):
            found[kind].append((b.path, b.loc(bi), what))
    total = sum(len(v) for v in found.values())
    rep.analysed["panic sites in the reading set after auto-discharge"] = total
    rep.floor("C05.R5", "inventoried panic sites (the inventory sees the sites)", total, 40)
    for kind in sorted(set(found) | set(budget)):
        sites = found.get(kind, [])
        perfn = Counter(p for p, _, _ in sites)
        e = budget.get(kind)
        allowed = e["count"] if e else 0
        known = dict(e.get("functions", {})) if e else {}
        over = []
        for fn, n in sorted(perfn.items()):
            if n > known.get(fn, 0):
                over.append("%s (%d, table %d) at %s" % (fn, n, known.get(fn, 0), ", ".join(l for p, l, _ in sites if p == fn)))
        ok = len(sites) <= allowed
        rep.ob("C05.R5", "panic-site budget kind=%s" % kind, ok,
               ("%d sites of kind %s in the reading set, table allows %d; functions above their recorded count: %s" % (len(sites), kind, allowed, "; ".join(over)))
               if not ok else "%d sites <= %d allowed" % (len(sites), allowed), over[0].split(" at ")[-1] if over else "")
    for kind, sites in sorted(found.items()):
        if sites:
            rep.sample({"rule": "C05.R5", "kind": kind, "count": len(sites), "example": list(sites[0])})

    # ---------------- R3 overflow asserts on input-derived integers ----------------
    allow3 = dict((e["key"], e["reason"]) for e in load_toml("c05_overflow_exceptions.toml").get("allow", []))
    n3 = 0
    for b in rset:
        for bi in range(b.n):
            t = b.blocks[bi]["term"]
            if t["t"] != "assert":
                continue
            k = t["kind"]
            if not (k.startswith("Overflow") or k in ("DivisionByZero", "RemainderByZero", "OverflowNeg")):
                continue
            n3 += 1
            tags = set()
            for o in t["ops"]:
                tags |= cl.classify(b, o)
            if k.startswith("Overflow:Sh") and t["ops"][1].get("k") == "const" and 0 <= t["ops"][1].get("int", 99) < 32:
                rep.count("shift by a small constant (cannot overflow)")
                continue
            inputish = [x for x in tags if x == "READ"]
            if k == "Overflow:Sub":
                lhs = cl.classify(b, t["ops"][0])
                if "LEN" in lhs or "READ" in lhs:
                    inputish.append("Sub(lhs=%s)" % sorted(lhs))
            inst = "%s %s(%s)" % (b.path, k, ", ".join(b.opdesc(o) for o in t["ops"]))
            if not inputish:
                rep.count("overflow asserts with no input-derived operand")
                continue
            if inst in allow3:
                rep.ob("C05.R3", inst, True, "discharged: " + allow3[inst], b.loc(bi))
            else:
                rep.ob("C05.R3", inst, False, "arithmetic that panics on overflow (debug) / wraps (release) on an operand derived from the input: %s" % sorted(inputish), b.loc(bi))
    rep.analysed["overflow/div asserts examined in the reading set"] = n3

    # ---------------- R2 declared counts ----------------
    allow2 = dict((e["key"], e["reason"]) for e in load_toml("c05_count_exceptions.toml").get("allow", []))
    n2 = 0
    for b in rset:
        # (a) loop ranges
        for bi, si, st in b.stmts():
            if st["s"] != "assign":
                continue
            rv = st["rv"]
            if rv["r"] == "agg" and rv.get("ak") == "adt" and rv.get("adt") in ("std::ops::Range", "std::ops::RangeInclusive") and len(rv["ops"]) >= 2:
                n2 += 1
                tags = cl.classify(b, rv["ops"][1])
                bad = [x for x in tags if x == "READ" or x.startswith("EXT:")]
                inst = "%s range end %s" % (b.path, b.opdesc(rv["ops"][1]))
                rep.ob("C05.R2", inst, not bad, "loop/range bound declared by the data without passing a limit guard: %s" % sorted(tags), b.loc(bi, st.get("ln")))
            # (b) counter fields
            if st["pl"]["p"] and any(isinstance(e, dict) and "f" in e for e in st["pl"]["p"]):
                root, projs = b.resolve_place(st["pl"])
                if root != 1:
                    continue
                tags = set()
                for o in ([rv["o"]] if rv["r"] in ("use", "cast") else (rv["ops"] if rv["r"] == "agg" else [])):
                    tags |= cl.classify(b, o)
                bad = [x for x in tags if x == "READ"]
                if not tags or not bad:
                    continue
                n2 += 1
                inst = "%s stores unguarded declared count in %s" % (b.path, b.pldesc(st["pl"]))
                if inst in allow2:
                    rep.ob("C05.R2", inst, True, "discharged: " + allow2[inst], b.loc(bi, st.get("ln")))
                else:
                    rep.ob("C05.R2", inst, False, "a count declared by the data is stored in a counter field without passing a limit guard", b.loc(bi, st.get("ln")))
        # (c) counter fields assigned from call results (dest is a field)
        for bi, t in b.calls():
            if t["dest"]["p"] and any(isinstance(e, dict) and "f" in e for e in t["dest"]["p"]):
                root, projs = b.resolve_place(t["dest"])
                ty = ""
                if root != 1:
                    continue
                tags = cl.classify_call(b, bi, t, [], 0)
                if "READ" in tags:
                    n2 += 1
                    inst = "%s stores unguarded declared count in %s" % (b.path, b.pldesc(t["dest"]))
                    if inst in allow2:
                        rep.ob("C05.R2", inst, True, "discharged: " + allow2[inst], b.loc(bi))
                    else:
                        rep.ob("C05.R2", inst, False, "a count declared by the data is stored in a counter field without passing a limit guard", b.loc(bi))
    rep.analysed["loop ranges + counter stores examined"] = n2
