"""C05 — decoding untrusted bytes never panics, aborts, hangs or over-allocates.

Structural clauses decided on the *reading set* (everything reachable from functions that read
from a std::io::Read-bounded source, plus Codec::decompress and deserialize_big_decimal):
 R1  allocation guard: the size operand of every allocation sink (vec![x; n], with_capacity,
     reserve*, resize, Read::take limit, decompress_*_with_limit) is a constant, the length of
     in-memory data, the configured limit, or the value returned by a limit guard; read_to_end /
     read_to_string only on a Take or an in-memory source; no unlimited decompress_to_vec.
     Parameters are checked at every caller inside the reading set.
 R2  declared counts that drive loops or counter fields come through a limit guard.
 R4  guard polarity: every limit guard returns Ok only on the `value <= limit` side and
     multiplies element counts with checked_mul.
 R5  closed inventory of explicit panic sites in the reading set (unwrap/expect/panic!/
     unreachable!/indexing/slicing/array bounds) against tables/c05_panic_sites.toml.
"""
import os
import tomllib
import facts as factsmod
from mir import Program, callee_names, op_local, forward_taint
import common
import readset
import prov

SINK_ARG = {
    "std::vec::from_elem": 1,
    "std::vec::Vec::<T>::with_capacity": 0,
    "std::vec::Vec::<T, A>::with_capacity_in": 0,
    "std::string::String::with_capacity": 0,
    "std::collections::HashMap::<K, V>::with_capacity": 0,
    "std::collections::HashMap::<K, V, S>::with_capacity_and_hasher": 0,
    "std::collections::HashSet::<T>::with_capacity": 0,
    "std::collections::VecDeque::<T>::with_capacity": 0,
    "std::collections::BTreeMap::<K, V>::with_capacity": 0,
    "std::io::BufReader::<R>::with_capacity": 0,
    "std::vec::Vec::<T, A>::reserve": 1,
    "std::vec::Vec::<T, A>::reserve_exact": 1,
    "std::vec::Vec::<T, A>::try_reserve": 1,
    "std::vec::Vec::<T, A>::try_reserve_exact": 1,
    "std::vec::Vec::<T, A>::resize": 1,
    "std::string::String::reserve": 1,
    "std::collections::HashMap::<K, V, S, A>::reserve": 1,
    "std::collections::HashSet::<T, S, A>::reserve": 1,
    "std::collections::VecDeque::<T, A>::reserve": 1,
    "std::io::Read::take": 1,
    "miniz_oxide::inflate::decompress_to_vec_with_limit": 1,
    "miniz_oxide::inflate::decompress_to_vec_zlib_with_limit": 1,
    "core::slice::<impl [T]>::repeat": 1,
    "std::str::<impl str>::repeat": 1,
}
FORBIDDEN = ("miniz_oxide::inflate::decompress_to_vec", "miniz_oxide::inflate::decompress_to_vec_zlib",
             "snap::raw::Decoder::decompress_vec", "zstd::decode_all", "zstd::stream::decode_all")
READ_ALL = ("std::io::Read::read_to_end", "std::io::Read::read_to_string")


def load_toml(name):
    p = os.path.join(common.VERIF, "rules", "tables", name)
    if not os.path.exists(p):
        return {}
    with open(p, "rb") as fh:
        return tomllib.load(fh)


def reading_set(prog):
    rf = readset.read_functions(prog)
    roots = set(rf.keys())
    extra = load_toml("read_entries.toml").get("entry", [])
    for e in extra:
        hits = [b for b in prog.by_crate["apache_avro"] if b.path == e["path"]]
        if not hits:
            raise KeyError("read entry not found: " + e["path"])
        roots.add(hits[0].key)
    reach = prog.reach(roots)
    return rf, roots, [prog.bodies[k] for k in sorted(reach) if k in prog.bodies and prog.bodies[k].crate == "apache_avro"]


def setup_classifier(prog, rf):
    lg = prov.find_limit_getters(prog)
    guards = prov.find_base_guards(prog, lg)
    sf = [e["field"] for e in load_toml("c05_safe_fields.toml").get("field", [])]
    # only value-returning guards (Result<usize>) count as size sources
    gkeys = [k for k, g in guards.items() if g["body"].ret.startswith("std::result::Result<usize")]
    cl = prov.Classifier(prog, gkeys, lg, rf, safe_fields=sf)
    return cl, lg, guards


def run(rep, tier="quick", replay=None, evidence_dir=None, collect_only=False):
    prog = Program(factsmod.extract())
    rep.rule("C05.R1", "every allocation size in the reading set is CONST | LEN | LIMIT | value of a limit guard (params checked at callers)")
    rep.rule("C05.R2", "declared counts stored in counter fields / loop bounds pass a limit guard")
    rep.rule("C05.R3", "no overflow / division assert in the reading set has an operand derived from the input, except the listed discharged instances")
    rep.rule("C05.R4", "limit guards: Ok only when value <= limit; checked_mul for element counts")
    rep.rule("C05.R5", "closed inventory of explicit panic sites in the reading set")
    rf, roots, rset = reading_set(prog)
    rkeys = set(b.key for b in rset)
    rep.analysed["reading roots (Read-bounded functions that read + table entries)"] = len(roots)
    rep.analysed["functions in the reading set (call-graph closure)"] = len(rset)
    cl, lg, guards = setup_classifier(prog, rf)
    rep.analysed["limit getters (reference the MAX_ALLOCATION_BYTES static)"] = len(lg)
    rep.analysed["limit guards found by role"] = len(guards)
    rep.floor("C05.R4", "limit getter", len(lg), 1)
    rep.floor("C05.R4", "limit guards (safe_len, safe_collection_len, decompress)", len(guards), 3)

    # ---------------- R4 guard polarity ----------------
    for k, g in sorted(guards.items()):
        b = g["body"]
        for (bi, st, lim_is_a) in g["cmps"]:
            op = st["rv"]["op"]
            # normalise to: value OP limit
            if lim_is_a:
                op = {"Le": "Ge", "Lt": "Gt", "Ge": "Le", "Gt": "Lt"}[op]
            # find the switch on this comparison
            d = st["pl"]["l"]
            sw = None
            for sbi in range(b.n):
                t = b.blocks[sbi]["term"]
                if t["t"] == "switch" and op_local(t["discr"]) == d:
                    sw = (sbi, t)
            if sw is None:
                rep.ob("C05.R4", "%s limit comparison is branched on" % b.path, False, "", b.loc(bi))
                continue
            sbi, t = sw
            tg = dict(t["targets"])
            false_t = tg.get(0)
            true_t = t["otherwise"]
            # the edge on which value > limit holds
            exceed_t = true_t if op in ("Gt",) else (false_t if op in ("Le",) else None)
            if op == "Ge":
                exceed_t = None  # value >= limit as the reject test would reject value == limit
            if op == "Lt":
                exceed_t = None  # value < limit as the accept test would reject value == limit
            if exceed_t is None:
                rep.ob("C05.R4", "%s accepts exactly value <= limit" % b.path, False,
                       "comparison `value %s limit` makes the boundary value wrong (lengths up to the limit must be accepted, above it rejected)" % op, b.loc(bi))
                continue
            reg = readset.edge_region(b, sbi, exceed_t)
            has_ok = bool(readset.ok_constructions(b, reg)) if reg is not None else True
            mem = False
            for x in (reg or []):
                for s2 in b.blocks[x]["stmts"]:
                    if s2["s"] == "assign" and s2["rv"]["r"] == "agg" and s2["rv"].get("variant") == "MemoryAllocation":
                        mem = True
            rep.ob("C05.R4", "%s accepts exactly value <= limit" % b.path, reg is not None and not has_ok and mem,
                   "the exceeding edge of the limit comparison must construct MemoryAllocation and no Ok", b.loc(bi))
        # the limit comes from the getter called with the DEFAULT constant
        for bi, t in b.calls():
            names = callee_names(t["func"])
            if any(n in lg for n in names):
                a = t["args"][0] if t["args"] else {}
                rep.ob("C05.R4", "%s reads the limit with the DEFAULT constant" % b.path,
                       a.get("k") == "const" and a.get("item", "").endswith("DEFAULT_MAX_ALLOCATION_BYTES"),
                       "an internal call of the limit setter with another value could install it as the process-wide limit", b.loc(bi))
        # multiplication must be checked
        for bi, si, st in b.stmts():
            if st["s"] == "assign" and st["rv"]["r"] == "bin" and st["rv"]["op"] in ("Mul", "MulWithOverflow", "MulUnchecked", "Shl"):
                rep.ob("C05.R4", "%s multiplies with checked_mul" % b.path, False, "raw multiplication in a limit guard can wrap", b.loc(bi, st.get("ln")))
        for bi, t in b.calls():
            names = callee_names(t["func"])
            if names and names[0].split("::")[-1] in ("saturating_mul", "wrapping_mul", "overflowing_mul"):
                rep.ob("C05.R4", "%s multiplies with checked_mul" % b.path, False, "%s in a limit guard defeats the limit at usize::MAX" % names[0], b.loc(bi))
            if names and names[0].split("::")[-1] == "checked_mul":
                rep.ob("C05.R4", "%s multiplies with checked_mul" % b.path, True, "", b.loc(bi))

    # ---------------- R1 allocation sinks ----------------
    allow = dict((e["key"], e["reason"]) for e in load_toml("c05_alloc_exceptions.toml").get("allow", []))
    callers = {}  # callee key -> list of (body, bi, term)
    for b in rset:
        for bi, t in b.calls():
            for nm in callee_names(t["func"]):
                if nm in prog.bodies:
                    callers.setdefault(nm, []).append((b, bi, t))
    n_sinks = 0

    def check_operand(b, bi, op, what, depth=0, chain=""):
        """returns list of (ok, detail)"""
        tags = cl.classify(b, op)
        bad = [t for t in tags if t not in prov.SAFE]
        if not bad:
            return [(True, "provenance %s" % sorted(tags))]
        res = []
        rest = [t for t in bad if not t.startswith("ARG:")]
        if rest:
            return [(False, "provenance %s%s" % (sorted(tags), chain))]
        if depth >= 3:
            return [(False, "parameter chain too deep%s" % chain)]
        # all bad tags are parameters: check each caller in the reading set
        for t in bad:
            i = int(t[4:])
            cs = callers.get(b.key, [])
            # closures: parameter of a closure body is not resolved here
            if not cs:
                if b.key in roots or b.raw.get("vis", "").startswith("Public"):
                    res.append((False, "size is parameter %s of an entry point%s" % (b.local_name(i) or i, chain)))
                else:
                    res.append((False, "size is parameter %s; no caller in the reading set%s" % (b.local_name(i) or i, chain)))
                continue
            for (cb, cbi, ct) in cs:
                if i - 1 >= len(ct["args"]):
                    res.append((False, "caller arity"))
                    continue
                sub = check_operand(cb, cbi, ct["args"][i - 1], what, depth + 1, chain + " <- %s(%s)" % (cb.path, cb.loc(cbi)))
                res.extend(sub)
        return res

    for b in rset:
        for bi, t in b.calls():
            names = callee_names(t["func"])
            if not names:
                continue
            n0 = names[0]
            if n0 in FORBIDDEN:
                n_sinks += 1
                rep.ob("C05.R1", "%s calls unlimited %s" % (b.path, n0), False, "decompression without an output limit", b.loc(bi))
                continue
            if n0 in READ_ALL:
                n_sinks += 1
                rty = t["argtys"][0]
                rroot = b.op_root_ty(t["args"][0])
                ok = "std::io::Take<" in rty or "std::io::Take<" in rroot or rroot.replace("&mut ", "").replace("&", "").startswith("[u8]") \
                    or rty.replace("&mut ", "").startswith("&[u8]")
                inst = "%s %s on %s" % (b.path, n0.split("::")[-1], rty)
                if not ok and inst in allow:
                    rep.ob("C05.R1", inst, True, "discharged: " + allow[inst], b.loc(bi))
                else:
                    rep.ob("C05.R1", inst, ok, "reads to the end of a source that is neither limited by Take nor in memory", b.loc(bi))
                continue
            if n0 not in SINK_ARG:
                # unknown allocation-like std call with a size: fail closed on the obvious families
                last = n0.split("::")[-1]
                if last in ("with_capacity", "reserve", "reserve_exact", "resize", "from_elem", "try_reserve", "with_capacity_and_hasher", "resize_with", "set_len") \
                        and not any(n in prog.bodies for n in names):
                    n_sinks += 1
                    rep.ob("C05.R1", "%s unclassified allocation call %s" % (b.path, n0), False, "allocation-like callee not in the sink table", b.loc(bi))
                continue
            n_sinks += 1
            ai = SINK_ARG[n0]
            op = t["args"][ai]
            res = check_operand(b, bi, op, n0)
            ok = all(r[0] for r in res)
            detail = "; ".join(sorted(set(r[1] for r in res if not r[0]))) if not ok else res[0][1]
            if n0 == "std::io::Read::take" or "with_limit" in n0:
                tags = cl.classify(b, op)
                ok = ok and "LIMIT" in tags
                if "LIMIT" not in tags:
                    detail = "limit operand does not derive from the configured allocation limit: %s" % sorted(tags)
            inst = "%s %s size=%s" % (b.path, n0.split("::<")[0].split("::")[-1] if "::<" not in n0 else n0.split("::")[-1], b.opdesc(op))
            k = sum(1 for o in rep.obligations if o["rule"] == "C05.R1" and o["instance"].startswith(inst))
            if k:
                inst += " #%d" % (k + 1)
            if not ok and inst in allow:
                rep.ob("C05.R1", inst, True, "discharged: " + allow[inst], b.loc(bi))
            else:
                rep.ob("C05.R1", inst, ok, ("unguarded allocation size: " + detail) if not ok else detail, b.loc(bi))
            rep.sample({"rule": "C05.R1", "fn": b.path, "sink": n0, "size": b.opdesc(op), "ok": ok, "why": detail[:200]})
            # element-count guard for collections of wide elements
            if n0.split("::")[-1] in ("reserve", "reserve_exact", "with_capacity") and ("Vec" in n0 or "HashMap" in n0):
                recv_ty = t["argtys"][0] if ai == 1 else b.local_ty(t["dest"]["l"])
                wide = not ("Vec<u8>" in recv_ty)
                tags = cl.classify(b, op)
                if wide and "GUARD" in tags:
                    doms = [cbi for cbi, ct in b.calls() if any(n.endswith("safe_collection_len") for n in callee_names(ct["func"])) and b.dominates(cbi, bi)]
                    rep.ob("C05.R1", "%s element-count guard before %s" % (b.path, n0.split("::")[-1]), bool(doms),
                           "a byte-length guard does not bound count*size_of::<T>(): safe_collection_len must dominate the reserve", b.loc(bi))
                    # a collection that is grown block after block (reserve inside a loop) must be bounded as a whole:
                    # the guarded quantity has to include the collection's current length, not just this block's count
                    if doms and ai == 1 and b.in_loop(bi):
                        recv = b.pldesc(t["args"][0]["pl"]) if t["args"][0].get("k") in ("copy", "move") else None
                        cumulative = False
                        for cbi in doms:
                            ct = b.blocks[cbi]["term"]
                            seen_l = set()
                            work = [a for a in ct["args"]]
                            steps = 0
                            while work and steps < 60:
                                steps += 1
                                o = work.pop()
                                if o.get("k") not in ("copy", "move"):
                                    continue
                                l0 = o["pl"]["l"]
                                if l0 in seen_l:
                                    continue
                                seen_l.add(l0)
                                for (dbi, si, kind, payload) in b.defs.get(l0, []):
                                    if kind == "call":
                                        nm = callee_names(payload["func"])
                                        if nm and nm[0].endswith("::len") and payload["args"] and payload["args"][0].get("k") in ("copy", "move") and b.pldesc(payload["args"][0]["pl"]) == recv:
                                            cumulative = True
                                        work.extend(payload["args"])
                                    elif kind == "assign":
                                        rv = payload
                                        for key in ("o", "a", "b"):
                                            if isinstance(rv.get(key), dict):
                                                work.append(rv[key])
                                        for o2 in rv.get("ops", []) or []:
                                            work.append(o2)
                                        if rv.get("pl"):
                                            work.append({"k": "copy", "pl": rv["pl"]})
                        rep.ob("C05.R1", "%s the guard before %s bounds the whole collection (current length + declared count)" % (b.path, n0.split("::")[-1]), cumulative,
                               "the limit is applied to each block's count separately: many blocks that each fit the limit grow the collection without bound", b.loc(bi))
    rep.analysed["allocation sinks examined in the reading set"] = n_sinks
    rep.floor("C05.R1", "allocation sinks in the reading set", n_sinks, 20)

    import c05_more
    c05_more.run(prog, rep, rset, rkeys, rf, cl, lg, guards)

    # R6: once a container read failed the iterators stop - reading on from the half-updated block state is what panics
    # (slice start beyond the refilled buffer) or repeats the same error for ever (C14.R3 instances)
    rep.rule("C05.R6", "the container iterators stop after the first error: no further read from half-updated block state (C14.R3 instances)")
    import c14
    sub14 = common.Report("C14", tier, 0)
    c14.rule_r3(prog, sub14)
    n6 = 0
    for o in sub14.obligations:
        if o["rule"] == "C14.R3":
            n6 += 1
            rep.ob("C05.R6", "[C14.R3] " + o["instance"], o["ok"], o["detail"] + "; polling the iterator again re-enters the block reader with a stale index / count: index panic or an endless stream of the same error", o["loc"])
    rep.floor("C05.R6", "imported latch obligations", n6, 4)

    if collect_only:
        return rep
    rep.not_decided = ["absence of all panics (serde_json, uuid, num-bigint, regex-lite and the codec crates are trusted)",
                       "stack depth on deeply nested data (acknowledged non-goal)", "actual peak memory and wall-clock bounds"]
    return common.finish(rep, level="other",
                         explanation="taint/provenance analysis of allocation sizes, guard-polarity check on the MIR comparison operators, counter provenance, and a closed panic-site inventory over the call-graph closure of the reading entry points",
                         assumptions=["allocation happens only through the std entry points in the sink table", "library crates honour the limits passed to them"],
                         evidence_dir=evidence_dir)
