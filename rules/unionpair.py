"""serde UnionSerializer: the branch index that is written and the wire form of the payload that follows belong to the
same branch kind (bytes / string: length-prefixed; fixed: raw; int / long: zig-zag varint; ...). Decided with tagflow:
the index is tagged with the kind it was looked up for, the pairing is observed at the payload writer on every path."""
import tagflow
from mir import callee_names

EXPECT = {"Bytes": "LEN+RAW", "String": "LEN+RAW", "Fixed": "RAW", "Named": "RAW", "Float": "RAW", "Double": "RAW", "Boolean": "RAW",
          "Int": "INT", "Long": "LONG"}
WRITERS = {"write_bytes_with_len": "LEN+RAW", "write_bytes": "RAW", "write_array": "RAW"}


def scan(prog):
    out = []
    nfun = 0
    for k, b in prog.bodies.items():
        if b.crate != "apache_avro" or not b.file.endswith("serde/ser_schema/union.rs") or b.kind == "Closure":
            continue
        if not any(callee_names(t["func"])[0].startswith("schema::union::UnionSchema::") for _, t in b.calls()):
            continue
        nfun += 1

        def source(bi, t, b=b):
            nm = callee_names(t["func"])[0]
            if nm == "schema::union::UnionSchema::index_of_schema_kind" and len(t["args"]) >= 2:
                a = t["args"][1]
                v = (b.op_const(a) or {}).get("variant")
                if v:
                    return v[1]
                if a.get("k") in ("copy", "move") and not a["pl"]["p"]:
                    sd = b.single_def(a["pl"]["l"])
                    if sd and sd[2] == "assign" and sd[3]["r"] == "agg" and sd[3].get("adt") == "schema::SchemaKind":
                        return sd[3].get("variant")
                return "?"
            if nm == "schema::union::UnionSchema::find_fixed_of_size_n":
                return "Fixed"
            if nm == "schema::union::UnionSchema::find_fully_qualified_named_schema":
                return "Named"
            return None

        def event(bi, t, tagof, b=b):
            nm = callee_names(t["func"])[0]
            short = nm.split("::")[-1]
            if nm in ("util::zig_i32", "util::zig_i64") and t["args"]:
                x = tagof(t["args"][0])
                if x and x[0] == "tag":
                    return ("set", x[1])
                return ("check", "INT" if nm.endswith("i32") else "LONG")
            if "UnionSerializer" in nm and short in WRITERS:
                return ("check", WRITERS[short])
            return None
        obs, complete = tagflow.run(b, source, event)
        if not complete:
            out.append({"fn": b.path, "tag": "*", "kind": "exploration incomplete", "ok": False, "loc": b.loc()})
        for pend, kind, bi in sorted(obs, key=repr):
            if pend is None:
                continue
            out.append({"fn": b.path, "tag": pend, "kind": kind, "ok": EXPECT.get(pend) == kind, "loc": b.loc(bi), "want": EXPECT.get(pend)})
    return out, nfun
