"""shared shape helpers for the rule modules: branch edges of bool / Option / Result values, edge regions,
gates ("the construction is only reachable through the success edge of that check")."""
from mir import callee_names, op_local, result_edges, edge_only_region, calls_named
import readset


def carriers_of(b, local):
    """locals holding the same value by plain moves/copies"""
    c = {local}
    changed = True
    while changed:
        changed = False
        for bi, si, st in b.stmts():
            if st["s"] == "assign" and not st["pl"]["p"] and st["rv"]["r"] == "use" and st["rv"]["o"].get("k") in ("copy", "move"):
                pl = st["rv"]["o"]["pl"]
                if pl["l"] in c and not pl["p"] and st["pl"]["l"] not in c:
                    c.add(st["pl"]["l"])
                    changed = True
    return c


def bool_switch(b, local):
    """switch on a bool held in `local` (through moves and `!`): (switch block, false target, true target)"""
    c = {local: False}  # local -> negated?
    changed = True
    while changed:
        changed = False
        for bi, si, st in b.stmts():
            if st["s"] != "assign" or st["pl"]["p"] or st["pl"]["l"] in c:
                continue
            rv = st["rv"]
            if rv["r"] == "use" and op_local(rv["o"]) in c and not rv["o"]["pl"]["p"]:
                c[st["pl"]["l"]] = c[op_local(rv["o"])]
                changed = True
            elif rv["r"] == "un" and rv["op"] == "Not" and op_local(rv["a"]) in c:
                c[st["pl"]["l"]] = not c[op_local(rv["a"])]
                changed = True
    for sbi in range(b.n):
        t = b.blocks[sbi]["term"]
        if t["t"] == "switch" and op_local(t["discr"]) in c:
            tg = dict(t["targets"])
            f, tr = tg.get(0), t["otherwise"]
            if c[op_local(t["discr"])]:
                f, tr = tr, f
            return sbi, f, tr
    return None


def call_bool_switch(b, call_bi):
    return bool_switch(b, b.blocks[call_bi]["term"]["dest"]["l"])


def option_switch(b, local):
    """switch on the discriminant of an Option in `local` (or is_some/is_none of it): (switch block, none target, some target)"""
    c = carriers_of(b, local)
    for bi, t in b.calls():
        nm = callee_names(t["func"])
        if nm and nm[0] in ("std::option::Option::<T>::is_some", "std::option::Option::<T>::is_none") and t["args"]:
            r = b.resolve_operand(t["args"][0])
            if r and r[0] in c and not [p for p in r[1] if p not in ("*", "&")]:
                sw = bool_switch(b, t["dest"]["l"])
                if sw:
                    return (sw[0], sw[1], sw[2]) if nm[0].endswith("is_some") else (sw[0], sw[2], sw[1])
    for bi, si, st in b.stmts():
        if st["s"] == "assign" and st["rv"]["r"] == "discr" and st["rv"]["pl"]["l"] in c and not st["rv"]["pl"]["p"]:
            d = st["pl"]["l"]
            for sbi in range(b.n):
                tt = b.blocks[sbi]["term"]
                if tt["t"] == "switch" and op_local(tt["discr"]) == d:
                    tg = dict(tt["targets"])
                    return sbi, tg.get(0, tt["otherwise"]), tg.get(1, tt["otherwise"])
    return None


def has_err(b, reg):
    return any(st["s"] == "assign" and st["rv"]["r"] == "agg" and st["rv"].get("adt") == "std::result::Result" and st["rv"].get("variant") == "Err"
               for x in reg for st in b.blocks[x]["stmts"])


def only_err(b, reg):
    """region constructs no Ok and constructs an Err (or propagates one through `?`)"""
    if reg is None:
        return False
    if readset.ok_constructions(b, reg):
        return False
    if has_err(b, reg):
        return True
    for x in reg:
        t = b.blocks[x]["term"]
        if t["t"] == "call" and t["dest"]["l"] == 0 and callee_names(t["func"])[0].endswith("FromResidual::from_residual"):
            return True
    return False


def ok_gate(b, call_bi):
    """for a call returning Result whose result is branched on exactly once (`?` or match): (switch, ok target, err target)"""
    e = result_edges(b, b.blocks[call_bi]["term"]["dest"]["l"])
    if len(e) != 1:
        return None
    return e[0]


def gated_by_ok(b, call_bi, target_bi):
    """target block is reachable only through the Ok edge of the call's result"""
    g = ok_gate(b, call_bi)
    if not g:
        return False
    sw, ok_t, err_t = g
    return ok_t is not None and b.dominates(ok_t, target_bi) and edge_only_region(b, sw, ok_t) is not None


def err_edge_only_err(b, call_bi):
    g = ok_gate(b, call_bi)
    if not g:
        return False
    return only_err(b, edge_only_region(b, g[0], g[2]))


def aggregates(b, adt, variant=None):
    out = []
    for bi, si, st in b.stmts():
        if st["s"] == "assign" and st["rv"]["r"] == "agg" and st["rv"].get("ak") == "adt" and st["rv"].get("adt") == adt and (variant is None or st["rv"].get("variant") == variant):
            out.append((bi, st))
    return out


def dominance_chain(b, blocks):
    return all(b.dominates(blocks[i], blocks[i + 1]) and blocks[i] != blocks[i + 1] for i in range(len(blocks) - 1))


def loop_of(b, bi):
    """(header, body) of the innermost natural loop containing block bi, or None"""
    best = None
    for h, body in b.loops():
        if bi in body and (best is None or len(body) < len(best[1])):
            best = (h, body)
    return best


def edge_must_err(b, sw, tgt):
    """every path that leaves the switch through `tgt` ends in an error: `tgt` is entered only through that edge, nothing
    reachable from it builds an Ok into the return place, and an Err (or a `?` propagation) is reachable"""
    if tgt is None or edge_only_region(b, sw, tgt) is None:
        return False
    reach = b.reachable(tgt)
    if readset.ok_constructions(b, reach):
        return False
    if has_err(b, reach):
        return True
    for x in reach:
        t = b.blocks[x]["term"]
        if t["t"] == "call" and t["dest"]["l"] == 0 and callee_names(t["func"])[0].endswith("FromResidual::from_residual"):
            return True
    return False


STD_VARIANT_INDEX = {"std::option::Option": {"None": 0, "Some": 1}, "std::result::Result": {"Ok": 0, "Err": 1},
                     "std::ops::ControlFlow": {"Continue": 0, "Break": 1}}


def hyp_reach(b, starts, call_value, stop=(), tyconst=None):
    """blocks reachable from `starts` under a hypothesis about the results of some calls: `call_value(bi, term)` gives the
    integer (bool) a call returns under the hypothesis, or None when the hypothesis says nothing. Plain locals holding known
    constants are tracked per path through copies, `!`, and constant assignments; a switch on a known local follows one edge.
    Abstract states are (block, known-constants) pairs, so the exploration is finite. Blocks in `stop` are reached, not left."""
    stop = set(stop)
    seen = set()
    reached = set()
    work = [(s, ()) for s in starts]
    while work:
        bi, envt = work.pop()
        if (bi, envt) in seen:
            continue
        seen.add((bi, envt))
        reached.add(bi)
        if bi in stop:
            continue
        env = dict(envt)
        for st in b.blocks[bi]["stmts"]:
            if st["s"] != "assign":
                continue
            if st["pl"]["p"]:
                continue
            l = st["pl"]["l"]
            rv = st["rv"]
            v = None
            if rv["r"] == "use":
                o = rv["o"]
                if o.get("k") == "const" and "int" in o:
                    v = o["int"]
                elif o.get("k") == "const" and tyconst and o.get("tyconst") in tyconst:
                    v = tyconst[o["tyconst"]]
                elif o.get("k") in ("copy", "move") and not o["pl"]["p"] and o["pl"]["l"] in env:
                    v = env[o["pl"]["l"]]
            elif rv["r"] == "un" and rv["op"] == "Not" and op_local(rv["a"]) in env and not rv["a"]["pl"]["p"] and env[op_local(rv["a"])] in (0, 1):
                v = 1 - env[op_local(rv["a"])]
            elif rv["r"] == "bin" and rv["op"] in ("Eq", "Ne", "Lt", "Le", "Gt", "Ge"):
                # comparison of known integers (constants, locals known on this path, hypothetical const generics)
                def _val(o):
                    if o.get("k") == "const":
                        if "int" in o:
                            return o["int"]
                        if tyconst and o.get("tyconst") in tyconst:
                            return tyconst[o["tyconst"]]
                        return None
                    if o.get("k") in ("copy", "move") and not o["pl"]["p"] and isinstance(env.get(o["pl"]["l"]), int):
                        return env[o["pl"]["l"]]
                    return None
                x, y = _val(rv["a"]), _val(rv["b"])
                if x is not None and y is not None:
                    v = int({"Eq": x == y, "Ne": x != y, "Lt": x < y, "Le": x <= y, "Gt": x > y, "Ge": x >= y}[rv["op"]])
            elif rv["r"] == "agg" and rv.get("ak") == "adt" and rv.get("adt") in STD_VARIANT_INDEX and rv.get("variant") in STD_VARIANT_INDEX[rv["adt"]]:
                # a freshly built Option / Result: its discriminant is known on this path
                v = ("variant", STD_VARIANT_INDEX[rv["adt"]][rv["variant"]])
            elif rv["r"] == "discr" and not rv["pl"]["p"] and isinstance(env.get(rv["pl"]["l"]), tuple):
                v = env[rv["pl"]["l"]][1]
            if v is None:
                env.pop(l, None)
            else:
                env[l] = v
        t = b.blocks[bi]["term"]
        succ = b.succ[bi]
        if t["t"] == "call":
            d = t["dest"]
            if not d["p"]:
                v = call_value(bi, t)
                if v is None:
                    env.pop(d["l"], None)
                else:
                    env[d["l"]] = int(v)
        elif t["t"] == "switch":
            l = op_local(t["discr"])
            if l is not None and not t["discr"]["pl"]["p"] and isinstance(env.get(l), int):
                tg = dict(t["targets"])
                succ = [tg.get(env[l], t["otherwise"])]
            elif t["discr"].get("k") == "const" and tyconst and t["discr"].get("tyconst") in tyconst:
                tg = dict(t["targets"])
                succ = [tg.get(tyconst[t["discr"]["tyconst"]], t["otherwise"])]
        nt = tuple(sorted(env.items(), key=repr))
        for s in succ:
            work.append((s, nt))
    return reached


def walk_coverage(prog, w, b, shapes=("Array", "Map", "Union", "Record")):
    """for a recursive function over a Schema root: shape -> does the region of that shape contain a recursive call
    (directly, or inside a closure built in the region)"""
    from vpes import top_shapes
    from mir import callee_names as _cn
    vp = w.vpes(b)
    roots = [r for r, a in vp.roots.items() if a == "schema::Schema"]
    if not roots:
        return None
    rec = set(bi for bi, t in b.calls() if b.key in _cn(t["func"]))
    out = {}
    for s_, reg in top_shapes(vp, roots[0]):
        S = vp.shape_name(s_, roots[0]).split("(")[0]
        if S not in shapes:
            continue
        hit = bool(rec & set(reg))
        if not hit:
            for x in reg:
                for st in b.blocks[x]["stmts"]:
                    if st["s"] == "assign" and st["rv"]["r"] == "agg" and st["rv"].get("ak") == "closure":
                        cb = prog.bodies.get(st["rv"].get("def"))
                        if cb is not None and any(b.key in _cn(t["func"]) for _, t in cb.calls()):
                            hit = True
        out[S] = out.get(S, False) or hit
    return out
