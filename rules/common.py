"""E2 framework: obligations, floors, violation keys, known-findings protocol, evidence writer."""
import json
import os
import sys
import time
import tomllib

VERIF = os.path.dirname(os.path.dirname(os.path.abspath(__file__)))


class Report:
    def __init__(self, pid, tier, seed):
        self.pid = pid
        self.tier = tier
        self.seed = seed
        self.t0 = time.time()
        self.obligations = []   # dicts: rule, instance, ok, detail, loc
        self.floors = []        # dicts: rule, what, count, minimum, ok
        self.analysed = {}      # free-form counts: functions, call sites ...
        self.samples = []
        self.notes = []
        self.errors = []        # anchor failures etc (fail closed)
        self.not_decided = []
        self.rules = {}         # rule id -> one-line statement

    def rule(self, rid, text):
        self.rules[rid] = text

    def ob(self, rule, instance, ok, detail="", loc=""):
        """record one obligation. `instance` must not contain line numbers: it is the violation key."""
        self.obligations.append({"rule": rule, "instance": instance, "ok": bool(ok), "detail": detail, "loc": loc})
        return ok

    def floor(self, rule, what, count, minimum):
        ok = count >= minimum
        self.floors.append({"rule": rule, "what": what, "count": count, "minimum": minimum, "ok": ok})
        if not ok:
            self.obligations.append({"rule": rule, "instance": "FLOOR %s" % what, "ok": False,
                                     "detail": "instance count %d below the hand-confirmed floor %d: the rule lost its anchors (fail closed)" % (count, minimum),
                                     "loc": ""})
        return ok

    def anchor_error(self, rule, msg):
        self.errors.append("%s: %s" % (rule, msg))
        self.obligations.append({"rule": rule, "instance": "ANCHOR %s" % msg, "ok": False,
                                 "detail": "anchor could not be located (fail closed)", "loc": ""})

    def count(self, key, n=1):
        self.analysed[key] = self.analysed.get(key, 0) + n

    def sample(self, s):
        if len(self.samples) < 12:
            self.samples.append(s)

    def key(self, o):
        return "%s %s" % (o["rule"], o["instance"])


def load_known(pid):
    p = os.path.join(VERIF, "known_findings.toml")
    if not os.path.exists(p):
        return {}, []
    with open(p, "rb") as fh:
        d = tomllib.load(fh)
    known = {}
    for e in d.get("finding", []):
        if e.get("property") == pid:
            known[e["key"]] = e
    fixed = [e for e in d.get("fixed", []) if e.get("property") == pid]
    return known, fixed


def finish(rep, level="other", explanation="", assumptions=(), extra_cov=None, evidence_dir=None):
    pid = rep.pid
    known, fixed = load_known(pid)
    failed = [o for o in rep.obligations if not o["ok"]]
    new = []
    seen_known = []
    seen_keys = set()
    for o in failed:
        k = rep.key(o)
        if k in seen_keys:
            continue
        seen_keys.add(k)
        if k in known:
            seen_known.append((k, known[k], o))
        else:
            new.append((k, o))
    evdir = evidence_dir or os.path.join(VERIF, "evidence")
    os.makedirs(evdir, exist_ok=True)
    n_ob = len(rep.obligations)
    n_ok = sum(1 for o in rep.obligations if o["ok"])
    distinct = len(set(rep.key(o) for o in rep.obligations))
    cov = {
        "explanation": explanation,
        "evaluations": n_ob,
        "distinct_nontrivial": distinct,
        "rule": "one evaluation = one structural obligation (rule instance) decided on the facts extracted from the current tree; distinct = distinct (rule, instance) keys; every instance is a call site, CFG region, shape pair or table row located in /repo on this run",
        "obligations": n_ob,
        "discharged": n_ok,
        "violated_known_findings": len(seen_known),
        "violated_new": len(new),
        "rules": rep.rules,
        "floors": rep.floors,
        "analysed": rep.analysed,
        "samples": rep.samples if rep.samples else [o for o in rep.obligations[:6]],
        "not_decided": rep.not_decided,
        "exhaustive": True,
        "checker_cmd": "./check %s --tier %s" % (pid, rep.tier),
        "trusted_base": ["rustc nightly MIR construction and trait resolution", "the transcribed specification tables under rules/tables"],
    }
    if extra_cov:
        cov.update(extra_cov)
    ev = {
        "property_id": pid,
        "tier": rep.tier,
        "seed": rep.seed,
        "level": level,
        "coverage": cov,
        "assumptions": list(assumptions),
        "wall_s": round(time.time() - rep.t0, 3),
        "violations": len(new),
        "known_findings_present": [k for k, _, _ in seen_known],
        "notes": rep.notes,
    }
    with open(os.path.join(evdir, "%s.json" % pid), "w") as fh:
        json.dump(ev, fh, indent=1, sort_keys=False)
    # console report
    print("== %s (%s): %d obligations, %d discharged, %d known finding(s), %d new violation(s); wall %.1fs" % (
        pid, rep.tier, n_ob, n_ok, len(seen_known), len(new), time.time() - rep.t0))
    for k, v in sorted(rep.analysed.items()):
        print("   analysed %-40s %s" % (k, v))
    for f in rep.floors:
        print("   floor %-8s %-45s count=%d min=%d %s" % (f["rule"], f["what"], f["count"], f["minimum"], "ok" if f["ok"] else "BELOW FLOOR"))
    for k, e, o in seen_known:
        print("KNOWN-FINDING: property=%s %s -- %s [%s]" % (pid, k, e.get("what", ""), o["loc"]))
    for e in fixed:
        pass  # fixed entries suppress nothing
    if new:
        vp = os.path.join(evdir, "%s.violations.json" % pid)
        with open(vp, "w") as fh:
            json.dump([{"key": k, **o} for k, o in new], fh, indent=1)
        for k, o in new:
            print("  violation: %s\n     at %s\n     %s" % (k, o["loc"], o["detail"]))
        print("VIOLATION property=%s replay=%s" % (pid, vp))
        return 1
    else:
        vp = os.path.join(evdir, "%s.violations.json" % pid)
        if os.path.exists(vp):
            os.unlink(vp)
    return 0
