"""C03 — container files return exactly the appended values for any writer history.

Structural clauses decided on writer::Writer, reader::block::Block and Reader (pairing / ordering):
 R1 rollback   every function that hands `self.buffer` to an encoder/serializer reads buffer.len()
               before the call, and the Err edge of the call's result passes
               Vec::truncate(self.buffer, that length) before returning.
 R2 count      `self.num_values += 1` is dominated by the Ok edge of the encode call, is not in a loop
               and lies on every path from that edge to a normal return (exactly once per append).
 R3 flush      sink writes in the order count, size, payload, marker; compress dominates the length
               read that feeds the size; buffer.clear() and num_values = 0 follow the marker write and
               precede Ok; the num_values == 0 early exit writes no block.
 R4 header     `has_header = true` is dominated by the Ok edge of the header write; every sink write in
               append*/flush is dominated by a maybe_write_header call; append_to* constructors set
               has_header(true) and pass the caller's marker.
 R5 finish     Drop::drop and into_inner call flush on all paths; into_inner flushes before ptr::read.
 R6 reader     in Block::read_next / read_next_deser `message_count -= 1` and `buf_idx += consumed` are
               dominated by the Ok edge of the decode, occur once, `consumed` is original_len - remaining_len;
               fill_buf resets buf_idx; read_block_next is called only under is_empty().
 R7 extend     extend* call the append per item inside the loop and flush after it.
"""
import facts as factsmod
from mir import Program, callee_names, op_local, result_edges, edge_only_region, calls_named, field_writes, rv_operands
import common

W = "writer::Writer::<'a, W>::"
BLK = "reader::block::Block::<'r, R>::"


def get(prog, rep, rule, path):
    try:
        return prog.body(path)
    except KeyError as e:
        rep.anchor_error(rule, str(e))
        return None


def buffer_encode_sites(prog):
    """role: calls in Writer methods that receive self.buffer (the Vec<u8> field) mutably, other than Vec/Codec housekeeping"""
    out = []
    for b in prog.by_crate["apache_avro"]:
        if not b.path.startswith(W) or b.kind == "Closure":
            continue
        for bi, t in b.calls():
            names = callee_names(t["func"])
            if not names:
                continue
            if names[0].startswith("std::vec::Vec") or names[0].startswith("std::convert::") or names[0].startswith("std::mem::") or "Codec::" in names[0] \
                    or names[0].startswith("std::io::Write") or names[0].startswith("std::ops::"):
                continue
            for a, ty in zip(t["args"], t.get("argtys", [])):
                if a.get("k") in ("copy", "move") and b.pldesc(a["pl"]) == "self.buffer" and ty.startswith("&mut"):
                    out.append((b, bi, t))
    return out


def serializer_of(b, t):
    """for `value.serialize(ser)` where ser was built from self.buffer by an earlier call: return that builder call"""
    for a in t["args"]:
        cr = b.call_result_of(a)
        if cr:
            cb, ct, projs = cr
            nm = callee_names(ct["func"])
            if nm and nm[0] == "std::ops::Try::branch":
                cr2 = b.call_result_of(ct["args"][0])
                if cr2:
                    return cr2
    return None


def run(rep, tier="quick", replay=None, evidence_dir=None, collect_only=False):
    prog = Program(factsmod.extract())
    for r, txt in (("C03.R1", "failed append rolls the pending buffer back"), ("C03.R2", "value counted exactly once after a successful encode"),
                   ("C03.R3", "flush order and resets"), ("C03.R4", "header once, before any block"), ("C03.R5", "drop/into_inner flush"),
                   ("C03.R6", "reader bookkeeping after successful decode only"), ("C03.R7", "extend = append per item + flush")):
        rep.rule(r, txt)

    # ---------------- R1 / R2 ----------------
    sites = buffer_encode_sites(prog)
    # the serializer constructor takes the buffer; the call that actually writes is serialize(ser)
    enc_sites = []
    for (b, bi, t) in sites:
        names = callee_names(t["func"])
        dty = b.local_ty(t["dest"]["l"])
        writes_directly = "usize" in dty or "()" in dty
        if "SchemaAwareSerializer" in names[0] and names[0].endswith("::new"):
            # find the serialize call consuming it
            for cbi, ct in b.calls():
                if callee_names(ct["func"])[:1] == ["serde::Serialize::serialize"]:
                    s = serializer_of(b, ct)
                    if s and s[0] == bi:
                        enc_sites.append((b, cbi, ct, "serialize"))
        else:
            enc_sites.append((b, bi, t, names[0].split("::")[-1]))
    rep.analysed["calls that encode into Writer.buffer"] = len(enc_sites)
    rep.floor("C03.R1", "encode-into-buffer sites (unvalidated_append_value_ref, append_ser)", len(enc_sites), 2)
    for (b, bi, t, what) in enc_sites:
        inst = "%s %s into self.buffer" % (b.path, what)
        d = t["dest"]["l"]
        edges = result_edges(b, d)
        if not rep.ob("C03.R1", inst + ": result is branched on", len(edges) == 1, "found %d branches on the encode result" % len(edges), b.loc(bi)):
            continue
        sw, ok_t, err_t = edges[0]
        # saved length: Vec::len(self.buffer) dominating the encode call
        lens = [(lbi, lt) for lbi, lt in calls_named(b, "std::vec::Vec::<T, A>::len") if b.pldesc(lt["args"][0]["pl"]) == "self.buffer" and b.dominates(lbi, bi) and lbi != bi]
        ereg = edge_only_region(b, sw, err_t)
        truncs = [(tbi, tt) for tbi, tt in calls_named(b, "std::vec::Vec::<T, A>::truncate") if b.pldesc(tt["args"][0]["pl"]) == "self.buffer"]
        good = False
        why = "no Vec::truncate(self.buffer, saved_len) on the error path"
        if ereg is None:
            why = "error edge of the encode result shares its target with other paths"
        else:
            for tbi, tt in truncs:
                if tbi in ereg and b.postdominates(tbi, err_t):
                    # the length operand must be the result of one of the dominating len() calls
                    ll = op_local(tt["args"][1])
                    r = b.resolve_operand(tt["args"][1])
                    if any(r and r[0] == lt["dest"]["l"] for _, lt in lens):
                        good = True
                    else:
                        why = "truncate length is not the buffer length saved before the encode"
        rep.ob("C03.R1", inst + ": Err edge truncates the buffer to the saved length", good,
               "an append that returns an error leaves partially encoded bytes in the pending block: " + why, b.loc(bi))
        # no `?` exits between the encode call and the rollback other than through it: error region must not return before truncate (postdominates covers)
        # R2
        nv = [(wbi, st) for wbi, st in field_writes(b, ".num_values")]
        okreg = edge_only_region(b, sw, ok_t)
        cond = len(nv) == 1
        detail = "num_values written %d times" % len(nv)
        if cond:
            wbi, st = nv[0]
            # value: checked add of 1 -> `(tmp.0)` from AddWithOverflow(self.num_values, 1)
            cond = (okreg is not None and wbi in okreg) and not b.in_loop(wbi) and b.postdominates(wbi, ok_t)
            detail = "increment must lie on the Ok edge of the encode, outside loops, on every path to return"
            src = st["rv"]
            inc_ok = False
            if src["r"] == "use" and src["o"].get("k") in ("copy", "move"):
                sd = b.single_def(src["o"]["pl"]["l"])
                if sd and sd[2] == "assign" and sd[3]["r"] == "bin" and sd[3]["op"] in ("AddWithOverflow", "Add"):
                    a_, b_ = sd[3]["a"], sd[3]["b"]
                    inc_ok = b_.get("int") == 1 and a_.get("k") in ("copy", "move") and b.pldesc(a_["pl"]).endswith(".num_values")
            rep.ob("C03.R2", "%s: num_values is incremented by exactly 1" % b.path, inc_ok, "increment is not `num_values + 1`", b.loc(wbi, st.get("ln")))
        rep.ob("C03.R2", "%s: value counted exactly once after a successful encode" % b.path, cond, detail, b.loc(bi))

    # ---------------- R3 flush ----------------
    f = get(prog, rep, "C03.R3", W + "flush")
    if f is not None:
        comp = calls_named(f, "codec::Codec::compress")
        raws = calls_named(f, W + "append_raw")
        wall = [(bi, t) for bi, t in calls_named(f, "std::io::Write::write_all") if f.pldesc(t["args"][1]["pl"]) == "self.buffer"]
        mark = calls_named(f, W + "append_marker")
        clr = [(bi, t) for bi, t in calls_named(f, "std::vec::Vec::<T, A>::clear") if f.pldesc(t["args"][0]["pl"]) == "self.buffer"]
        nv0 = [(bi, st) for bi, st in field_writes(f, ".num_values") if st["rv"]["r"] == "use" and st["rv"]["o"].get("int") == 0]
        lens = [(bi, t) for bi, t in calls_named(f, "std::vec::Vec::<T, A>::len") if f.pldesc(t["args"][0]["pl"]) == "self.buffer"]
        shape = len(comp) == 1 and len(raws) == 2 and len(wall) == 1 and len(mark) == 1 and len(clr) == 1 and len(nv0) == 1 and len(lens) == 1
        if rep.ob("C03.R3", "flush has one compress, two header longs, one payload write, one marker, one clear, one count reset", shape,
                  "found compress=%d append_raw=%d payload write_all=%d marker=%d clear=%d num_values=0:%d len=%d" % (len(comp), len(raws), len(wall), len(mark), len(clr), len(nv0), len(lens)), f.loc()):
            raws.sort(key=lambda x: len(f.dom[x[0]]))
            chain = [comp[0][0], lens[0][0], raws[0][0], raws[1][0], wall[0][0], mark[0][0], clr[0][0]]
            rep.ob("C03.R3", "flush order: compress, len, count, size, payload, marker, clear", all(f.dominates(chain[i], chain[i + 1]) for i in range(len(chain) - 1)),
                   "the block must be written as count, size-of-compressed-payload, payload, marker and cleared only afterwards", f.loc(chain[0]))
            # first append_raw gets num_values, second gets the length read after compress
            def arg_src(t):
                a = t["args"][1]
                # &Value built from try_into()? of X
                cur = a
                for _ in range(6):
                    cr = f.call_result_of(cur)
                    if not cr:
                        break
                    cb, ct, _ = cr
                    nm = callee_names(ct["func"])[0]
                    if nm in ("std::ops::Try::branch", "std::convert::TryInto::try_into", "std::convert::Into::into", "std::convert::From::from", "std::convert::TryFrom::try_from"):
                        cur = ct["args"][0]
                        continue
                    break
                return f.opdesc(cur)
            s1, s2 = arg_src(raws[0][1]), arg_src(raws[1][1])
            rep.ob("C03.R3", "flush writes num_values as the block count", s1.endswith("num_values"), "first long written is %s" % s1, f.loc(raws[0][0]))
            rep.ob("C03.R3", "flush writes the compressed length as the block size", s2 == f.pldesc(lens[0][1]["dest"]) or s2 == "len()", "second long written is %s" % s2, f.loc(raws[1][0]))
            rep.ob("C03.R3", "num_values = 0 after the marker write and before Ok", f.dominates(mark[0][0], nv0[0][0]), "", f.loc(nv0[0][0]))
            # once the marker write succeeded the block is in the sink: the pending block must be reset on *every* path
            # from there to any return, also the error returns of later sink operations (else a later call writes it again)
            me = result_edges(f, mark[0][1]["dest"]["l"])
            okr = False
            if len(me) == 1 and me[0][1] is not None:
                start = me[0][1]
                for resets in ([clr[0][0]], [nv0[0][0]]):
                    pass
                def all_paths_pass(start, must):
                    # is a return reachable from start while avoiding `must`?
                    seen = f.reachable(start, avoid={must})
                    return not any(r in seen for r in f.return_blocks())
                okr = all_paths_pass(start, clr[0][0]) and all_paths_pass(start, nv0[0][0])
            rep.ob("C03.R3", "after the marker write succeeded every exit (also error exits) passes buffer.clear() and num_values = 0 reset", okr,
                   "a sink operation that can fail sits between the marker write and the reset: on its error the block stays pending although the sink already has it, and the next flush writes it again",
                   f.loc(mark[0][0]))
            # early exit: the switch on num_values == 0 leads to a region without sink writes
            early_ok = False
            for bi in range(f.n):
                t = f.blocks[bi]["term"]
                if t["t"] == "switch" and t["discr"].get("k") in ("copy", "move"):
                    sd = f.single_def(op_local(t["discr"]))
                    if sd and sd[2] == "assign" and sd[3]["r"] == "bin" and sd[3]["op"] in ("Eq", "Ne"):
                        ops = [f.opdesc(sd[3]["a"]), f.opdesc(sd[3]["b"])]
                        if any(o.endswith("num_values") for o in ops) and "const:0" in ops:
                            tg = dict(t["targets"])
                            eq_t = t["otherwise"] if sd[3]["op"] == "Eq" else tg.get(0)
                            ne_t = tg.get(0) if sd[3]["op"] == "Eq" else t["otherwise"]
                            reg = edge_only_region(f, bi, eq_t)
                            sinkcalls = [x[0] for x in raws + wall + mark + comp]
                            early_ok = reg is not None and not any(s in reg for s in sinkcalls) and all(f.dominates(ne_t, s) for s in sinkcalls)
            rep.ob("C03.R3", "flush with no pending values writes no block", early_ok, "the num_values == 0 test must guard every block write", f.loc())
    # ---------------- R4 header ----------------
    m = get(prog, rep, "C03.R4", W + "maybe_write_header")
    if m is not None:
        hw = calls_named(m, W + "append_bytes")
        hh = calls_named(m, W + "header")
        sets = [(bi, st) for bi, st in field_writes(m, ".has_header")]
        ok = len(hw) == 1 and len(hh) == 1 and len(sets) == 1 and sets[0][1]["rv"]["o"].get("int") == 1
        if rep.ob("C03.R4", "maybe_write_header: one header build, one write, one has_header = true", ok, "", m.loc()):
            e = result_edges(m, hw[0][1]["dest"]["l"])
            okreg = edge_only_region(m, e[0][0], e[0][1]) if len(e) == 1 else None
            rep.ob("C03.R4", "has_header = true only after the header write succeeded", okreg is not None and sets[0][0] in okreg,
                   "the flag must be set on the Ok edge of the header write, else a failed header write is never retried / a header is skipped", m.loc(sets[0][0]))
            # guarded by !has_header
            guard = False
            for bi in range(m.n):
                t = m.blocks[bi]["term"]
                if t["t"] == "switch" and t["discr"].get("k") in ("copy", "move") and m.pldesc(t["discr"]["pl"]).endswith(".has_header"):
                    tg = dict(t["targets"])
                    false_t = tg.get(0)
                    guard = false_t is not None and m.dominates(false_t, hw[0][0]) and edge_only_region(m, bi, false_t) is not None
            rep.ob("C03.R4", "header is written only when has_header is false", guard, "", m.loc())
    for fn in ("unvalidated_append_value_ref", "append_ser", "flush"):
        b = get(prog, rep, "C03.R4", W + fn)
        if b is None:
            continue
        mh = calls_named(b, W + "maybe_write_header")
        sinks = [(bi, t) for bi, t in b.calls() if callee_names(t["func"])[0] in ("std::io::Write::write_all", "std::io::Write::write", W + "append_raw", W + "append_marker", W + "append_bytes", W + "flush")
                 or (callee_names(t["func"])[0].startswith("encode::") or callee_names(t["func"])[0] == "serde::Serialize::serialize")]
        rep.ob("C03.R4", "%s%s: maybe_write_header dominates every write" % (W, fn), len(mh) >= 1 and all(any(b.dominates(h[0], s[0]) for h in mh) for s in sinks),
               "a block could reach the sink before the file header", b.loc())
    n_app = 0
    for b in prog.by_crate["apache_avro"]:
        if b.path.startswith(W + "append_to") and b.kind != "Closure":
            n_app += 1
            hs = [t for bi, t in b.calls() if callee_names(t["func"])[0].endswith("::has_header")]
            mk = [t for bi, t in b.calls() if callee_names(t["func"])[0].endswith("::marker")]
            deleg = [t for bi, t in b.calls() if callee_names(t["func"])[0].startswith(W + "append_to")]
            ok = bool(deleg) or (len(hs) == 1 and hs[0]["args"][1].get("int") == 1 and len(mk) == 1 and (b.resolve_operand(mk[0]["args"][1]) or (0,))[0] in range(1, b.argc + 1))
            rep.ob("C03.R4", "%s suppresses the header and uses the caller's marker" % b.path, ok, "append_to must set has_header(true) and marker(<param>)", b.loc())
    rep.floor("C03.R4", "append_to constructors", n_app, 3)

    # ---------------- R5 finish ----------------
    for b in prog.by_crate["apache_avro"]:
        if b.path == "<writer::Writer<'_, W> as std::ops::Drop>::drop" or b.path == W + "into_inner":
            fl = calls_named(b, W + "flush")
            rets = b.return_blocks()
            ok = len(fl) >= 1 and all(any(b.dominates(x[0], r) for x in fl) for r in rets)
            if b.path.endswith("into_inner"):
                # flush may exit through `?`: the Ok return must be dominated by flush's Ok edge; ptr::read after flush
                pr = calls_named(b, "std::ptr::read")
                e = result_edges(b, fl[0][1]["dest"]["l"]) if fl else []
                ok = len(fl) == 1 and len(pr) == 1 and len(e) == 1 and b.dominates(e[0][1], pr[0][0])
            rep.ob("C03.R5", "%s flushes the pending block%s" % (b.path, " before taking the sink" if b.path.endswith("into_inner") else " on every path"), ok,
                   "values of the last block would be lost", b.loc())
            rep.count("finishers checked")
    rep.floor("C03.R5", "finishers (Drop::drop, into_inner)", rep.analysed.get("finishers checked", 0), 2)

    # ---------------- R6 reader ----------------
    for fn, dec in (("read_next", "decode::decode_internal"), ("read_next_deser", "serde::Deserialize::deserialize")):
        b = get(prog, rep, "C03.R6", BLK + fn)
        if b is None:
            continue
        dc = calls_named(b, dec)
        if not rep.ob("C03.R6", "%s decodes exactly one item per call" % fn, len(dc) == 1, "found %d decode calls" % len(dc), b.loc()):
            continue
        e = result_edges(b, dc[0][1]["dest"]["l"])
        okreg_t = e[0][1] if len(e) == 1 else None
        mc = field_writes(b, ".message_count")
        bx = field_writes(b, ".buf_idx")
        ok = okreg_t is not None and len(mc) == 1 and len(bx) == 1 and all(b.dominates(okreg_t, w[0]) and not b.in_loop(w[0]) for w in mc + bx)
        rep.ob("C03.R6", "%s updates message_count and buf_idx once, after a successful decode" % fn, ok,
               "an item that failed to decode must not be counted, and a decoded one counted exactly once", b.loc())
        if ok:
            # message_count - 1
            sd = b.single_def(op_local(mc[0][1]["rv"]["o"])) if mc[0][1]["rv"]["r"] == "use" else None
            dec1 = bool(sd and sd[2] == "assign" and sd[3]["r"] == "bin" and sd[3]["op"] in ("SubWithOverflow", "Sub") and sd[3]["b"].get("int") == 1
                        and b.opdesc(sd[3]["a"]).endswith(".message_count"))
            rep.ob("C03.R6", "%s decrements message_count by 1" % fn, dec1, "", b.loc(mc[0][0]))
            # buf_idx + (b_original - remaining.len())
            sd = b.single_def(op_local(bx[0][1]["rv"]["o"])) if bx[0][1]["rv"]["r"] == "use" else None
            adv = False
            if sd and sd[2] == "assign" and sd[3]["r"] == "bin" and sd[3]["op"] in ("AddWithOverflow", "Add") and b.opdesc(sd[3]["a"]).endswith(".buf_idx"):
                cons = sd[3]["b"]
                sd2 = b.single_def(b.resolve_operand(cons)[0]) if cons.get("k") in ("copy", "move") else None
                if sd2 and sd2[2] == "assign" and sd2[3]["r"] == "bin" and sd2[3]["op"] in ("SubWithOverflow", "Sub"):
                    a_, b_ = sd2[3]["a"], sd2[3]["b"]
                    # a_ = length before (a len() result that dominates the decode), b_ = length after (dominated by decode)
                    ra = b.call_result_of(a_)
                    rb = b.call_result_of(b_)
                    lenlike = lambda r: r is not None and callee_names(r[1]["func"])[0].endswith("::len")
                    # PtrMetadata form: single def assign un PtrMetadata
                    def len_site(o):
                        r = b.call_result_of(o)
                        if r is not None and callee_names(r[1]["func"])[0].endswith("::len"):
                            return r[0]
                        l = b.resolve_operand(o)
                        if l:
                            s_ = b.single_def(l[0])
                            if s_ and s_[2] == "assign" and s_[3]["r"] == "un" and s_[3]["op"] == "PtrMetadata":
                                return s_[0]
                        return None
                    la, lb = len_site(a_), len_site(b_)
                    adv = la is not None and lb is not None and b.dominates(la, dc[0][0]) and b.dominates(dc[0][0], lb)
            rep.ob("C03.R6", "%s advances buf_idx by (length before - length after) the decode" % fn, adv,
                   "the read offset must advance by exactly the bytes the item consumed", b.loc(bx[0][0]))
        rb = calls_named(b, BLK + "read_block_next")
        ie = calls_named(b, BLK + "is_empty")
        guard = False
        if len(rb) == 1 and ie:
            for ibi, it in ie:
                for sbi in range(b.n):
                    t = b.blocks[sbi]["term"]
                    if t["t"] == "switch" and op_local(t["discr"]) == it["dest"]["l"]:
                        true_t = t["otherwise"]
                        if b.dominates(true_t, rb[0][0]) and edge_only_region(b, sbi, true_t) is not None:
                            guard = True
        rep.ob("C03.R6", "%s reads the next block only when the current one is exhausted" % fn, guard, "", b.loc())
    fb = get(prog, rep, "C03.R6", BLK + "fill_buf")
    if fb is not None:
        z = [(bi, st) for bi, st in field_writes(fb, ".buf_idx") if st["rv"]["r"] == "use" and st["rv"]["o"].get("int") == 0]
        rx = calls_named(fb, "std::io::Read::read_exact")
        rep.ob("C03.R6", "fill_buf resets buf_idx to 0 after reading the payload", len(z) == 1 and len(rx) == 1 and fb.dominates(rx[0][0], z[0][0]), "", fb.loc())

    # ---------------- R7 extend ----------------
    n_ext = 0
    for b in prog.by_crate["apache_avro"]:
        if b.kind != "Closure" and b.path.startswith(W + "extend"):
            n_ext += 1
            ap = [(bi, t) for bi, t in b.calls() if callee_names(t["func"])[0] in (W + "append_value", W + "append_value_ref", W + "append_ser")]
            fl = calls_named(b, W + "flush")
            ok = len(ap) == 1 and len(fl) == 1 and b.in_loop(ap[0][0]) and not b.in_loop(fl[0][0])
            if ok:
                # flush comes after the loop: not dominated by the append, but every return passes flush or an error exit of append
                e = result_edges(b, fl[0][1]["dest"]["l"])
                ok = len(e) == 1
            rep.ob("C03.R7", "%s appends each item in the loop and flushes once after it" % b.path, ok, "", b.loc())
    rep.floor("C03.R7", "extend* functions", n_ext, 3)

    # ---------------- R8: the two halves of the pending-block state are reset together
    rep.rule("C03.R8", "wherever a Writer method empties the pending buffer it also resets the pending count (buffer and num_values describe the same block)")
    n8 = 0
    for b in prog.by_crate["apache_avro"]:
        if not b.path.startswith("writer::Writer") or b.kind == "Closure":
            continue
        clears = [bi for bi, t in calls_named(b, "std::vec::Vec::<T, A>::clear") if b.opdesc(t["args"][0]) == "self.buffer"]
        if not clears:
            continue
        zeros = [bi for bi, si, st in b.stmts() if st["s"] == "assign" and st["pl"]["p"] and b.pldesc(st["pl"]) == "self.num_values"
                 and st["rv"]["r"] == "use" and st["rv"]["o"].get("k") == "const" and st["rv"]["o"].get("int") == 0]
        for c in clears:
            n8 += 1
            ok = any(b.dominates(z, c) or b.postdominates(z, c) for z in zeros)
            rep.ob("C03.R8", "%s: buffer.clear() comes with num_values = 0" % b.path, ok,
                   "the pending buffer is emptied while the pending count keeps its value: the next block announces more objects than it holds (the file cannot be read back)", b.loc(c))
    rep.floor("C03.R8", "Writer methods that empty the pending buffer (flush, reset)", n8, 2)

    if collect_only:
        return rep
    rep.not_decided = ["that the values read back equal those appended for every history (needs C01 and offset arithmetic at run time)",
                       "behaviour after a sink failure in the middle of flush (the compressed buffer is kept; covered by C13 only as far as the error is reported)"]
    return common.finish(rep, level="other",
                         explanation="pairing / ordering / dominance rules over the MIR of writer::Writer and reader::block::Block: rollback on failed append, count-once, flush order and resets, header-once, finishers flush, reader bookkeeping, extend loop",
                         assumptions=["Vec::truncate/clear/len behave as documented"], evidence_dir=evidence_dir)
