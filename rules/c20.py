"""C20 — multi-schema parsing is independent of input order and deterministic.

Structural clauses decided:
 R1 output order   Parser::parse_list fills the returned Vec in a loop over `self.input_order` (a Vec filled in
                   input order by the two public entry points), taking each schema out of parsed_schemas by that
                   name; no map iteration feeds the result.
 R2 up-front duplicate test  in Schema::parse_list and Schema::parse_str_with_list the previous value returned by
                   `input_schemas.insert(name, json)` is tested and the `Some` edge can only return Err; the name is
                   pushed to input_order on the `None` edge, inside the same loop; a non-object input is an Err.
 R3 checked registration  every `insert` into a name table of the parser (`parsed_schemas`) either has its returned
                   previous value tested or is dominated by the "absent" edge of a contains_key test on that table:
                   otherwise a second definition of a full name silently replaces the first and *which* definition
                   survives depends on the (hash-seeded) parse order.
 R4 hash-order inventory  every iteration over a RandomState HashMap/HashSet in the parser's call-graph slice is
                   listed in tables/c20_hash_iteration.toml with a reason; a new one must be classified.
Not decided: confluence of the on-demand parse for concrete inputs, identical decoding across orderings.
"""
import os
import tomllib
import facts as factsmod
from mir import Program, callee_names, op_local, calls_named, edge_only_region
import common
import readset

P = "schema::parser::Parser::"
INS = "std::collections::HashMap::<K, V, S, A>::insert"


def get(prog, rep, rule, path):
    try:
        return prog.body(path)
    except KeyError as e:
        rep.anchor_error(rule, str(e))
        return None


def option_switch(b, local):
    """switch on the discriminant of an Option held in `local` (or a moved copy): (switch block, none target, some target)"""
    carriers = {local}
    changed = True
    while changed:
        changed = False
        for bi, si, st in b.stmts():
            if st["s"] == "assign" and not st["pl"]["p"] and st["rv"]["r"] == "use" and op_local(st["rv"]["o"]) in carriers and not st["rv"]["o"]["pl"]["p"] and st["pl"]["l"] not in carriers:
                carriers.add(st["pl"]["l"])
                changed = True
        for bi, t in b.calls():
            nm = callee_names(t["func"])
            if nm and nm[0] in ("std::option::Option::<T>::is_some", "std::option::Option::<T>::is_none") and t["args"]:
                r = b.resolve_operand(t["args"][0])
                if r and r[0] in carriers:
                    d = t["dest"]["l"]
                    for sbi in range(b.n):
                        tt = b.blocks[sbi]["term"]
                        if tt["t"] == "switch" and op_local(tt["discr"]) == d:
                            tg = dict(tt["targets"])
                            f, tr = tg.get(0), tt["otherwise"]
                            return (sbi, f, tr) if nm[0].endswith("is_some") else (sbi, tr, f)
    for bi, si, st in b.stmts():
        if st["s"] == "assign" and st["rv"]["r"] == "discr" and st["rv"]["pl"]["l"] in carriers and not st["rv"]["pl"]["p"]:
            d = st["pl"]["l"]
            for sbi in range(b.n):
                tt = b.blocks[sbi]["term"]
                if tt["t"] == "switch" and op_local(tt["discr"]) == d:
                    tg = dict(tt["targets"])
                    none_t = tg.get(0, tt["otherwise"])
                    some_t = tg.get(1, tt["otherwise"])
                    return sbi, none_t, some_t
    return None


def only_err(b, reg):
    if reg is None or readset.ok_constructions(b, reg):
        return False
    return any(st["s"] == "assign" and st["rv"]["r"] == "agg" and st["rv"].get("variant") == "Err" for x in reg for st in b.blocks[x]["stmts"])


def table_of(b, t):
    """field path of the map an insert/contains_key call works on, e.g. 'self.parsed_schemas' / 'input_schemas'"""
    d = b.opdesc(t["args"][0])
    if b.kind == "Closure":
        # upvar: described through the closure environment; fall back to the upvar name
        for u in b.raw.get("upvars", []):
            if u["pl"]["l"] == 1 and d.startswith("tmp") or True:
                pass
    return d


def roots_for_inputs(prog):
    return [k for k in prog.bodies if k.startswith(P) and prog.bodies[k].kind != "Closure"]


def shape_ok_gate(b, call_bi, target_bi):
    import shape
    return [1] if shape.gated_by_ok(b, call_bi, target_bi) else []


def run(rep, tier="quick", replay=None, evidence_dir=None, collect_only=False):
    prog = Program(factsmod.extract())
    rep.rule("C20.R1", "parse_list returns schemas in input order (loop over input_order, no map iteration)")
    rep.rule("C20.R2", "duplicate full names among the inputs are rejected before parsing")
    rep.rule("C20.R3", "no unchecked insert into the parser's name table")
    rep.rule("C20.R4", "closed inventory of hash-order iterations in the parser")

    # ------------------------------------------------------------ R1
    pl = get(prog, rep, "C20.R1", P + "parse_list")
    if pl is not None:
        dr = calls_named(pl, "std::vec::Vec::<T, A>::drain", "std::vec::Vec::<T, A>::iter", "std::iter::IntoIterator::into_iter")
        def from_input_order(op, depth=0):
            # `self.input_order` itself, or a local it was moved / taken / cloned into
            if "self.input_order" in pl.opdesc(op):
                return True
            cr = pl.call_result_of(op)
            if cr and depth < 3 and cr[1]["args"] and callee_names(cr[1]["func"])[0] in ("std::mem::take", "std::mem::replace", "std::clone::Clone::clone", "std::ops::DerefMut::deref_mut", "std::ops::Deref::deref"):
                return from_input_order(cr[1]["args"][0], depth + 1)
            return False
        src = [(bi, t) for bi, t in dr if from_input_order(t["args"][0])]
        rm = [(bi, t) for bi, t in calls_named(pl, "std::collections::HashMap::<K, V, S, A>::remove", "std::collections::HashMap::<K, V, S, A>::get") if pl.opdesc(t["args"][0]) == "self.parsed_schemas"]
        pu = calls_named(pl, "std::vec::Vec::<T, A>::push")
        ok = len(src) == 1 and len(rm) == 1 and len(pu) == 1
        if rep.ob("C20.R1", "Parser::parse_list: one loop over self.input_order, one lookup in parsed_schemas, one push", ok, "iter=%d lookup=%d push=%d" % (len(src), len(rm), len(pu)), pl.loc()):
            rep.ob("C20.R1", "Parser::parse_list: lookup and push are inside the loop over input_order", pl.in_loop(rm[0][0]) and pl.in_loop(pu[0][0]) and pl.dominates(src[0][0], rm[0][0]), "", pl.loc())
            # key of the lookup is the loop item
            nx = [(bi, t) for bi, t in calls_named(pl, "std::iter::Iterator::next")]
            okk = False
            if len(nx) == 1:
                r = pl.resolve_operand(rm[0][1]["args"][1])
                # the loop item is `(_next as Some).0` moved to a local
                if r:
                    sd = pl.single_def(r[0])
                    if sd and sd[2] == "assign" and sd[3]["r"] == "use" and sd[3]["o"].get("k") in ("copy", "move") and sd[3]["o"]["pl"]["l"] == nx[0][1]["dest"]["l"]:
                        okk = True
                    if r[0] == nx[0][1]["dest"]["l"]:
                        okk = True
            rep.ob("C20.R1", "Parser::parse_list: the lookup key is the current input_order entry", okk, "", pl.loc(rm[0][0]))
            # pushed value derives from the lookup
            cur = pu[0][1]["args"][1]
            okv = False
            for _ in range(5):
                r = pl.resolve_operand(cur)
                if r and r[0] == rm[0][1]["dest"]["l"]:
                    okv = True
                    break
                cr = pl.call_result_of(cur)
                if not cr or not cr[1]["args"]:
                    break
                cur = cr[1]["args"][0]
            rep.ob("C20.R1", "Parser::parse_list: the pushed schema is the one looked up", okv, "", pl.loc(pu[0][0]))
            # returned Ok carries the pushed-to vector
            okr = False
            for bi, si, st in pl.stmts():
                if st["s"] == "assign" and st["pl"]["l"] == 0 and st["rv"]["r"] == "agg" and st["rv"].get("variant") == "Ok":
                    r = pl.resolve_operand(st["rv"]["ops"][0])
                    r2 = pl.resolve_operand(pu[0][1]["args"][0])
                    okr = bool(r and r2 and r[0] == r2[0])
            rep.ob("C20.R1", "Parser::parse_list: the vector filled in input order is what is returned", okr, "", pl.loc())
            pis = calls_named(pl, P + "parse_input_schemas")
            rep.ob("C20.R1", "Parser::parse_list parses all inputs before collecting", len(pis) == 1 and pl.dominates(pis[0][0], src[0][0]), "", pl.loc())

    # names are qualified the same way whichever input is parsed first (C11.R4 instances): a reference must not bind to
    # whatever happens to be registered already under the bare name
    if not collect_only:
        import c11
        sub11 = common.Report("C11", tier, 0)
        c11.run(sub11, tier=tier, collect_only=True)
        n54 = 0
        for o in sub11.obligations:
            if o["rule"] == "C11.R4":
                n54 += 1
                rep.ob("C20.R5", "[C11.R4] " + o["instance"], o["ok"], o["detail"], o["loc"])
        rep.floor("C20.R5", "imported namespace-threading obligations", n54, 40)
    # ------------------------------------------------------------ R6 an input parsed on demand is answered with a reference
    rep.rule("C20.R6", "a reference to an input that is parsed on demand gets the same answer as a reference to an already parsed one: Schema::Ref for every named shape")
    gsr = [b for k, b in prog.bodies.items() if k.startswith(P + "fetch_schema_ref::") and b.kind != "Closure" and b.argc == 1]
    if len(gsr) != 1:
        rep.anchor_error("C20.R6", P + "fetch_schema_ref::<helper that turns the parsed input into the returned schema>")
    else:
        from wire import Wire
        from vpes import top_shapes
        g = gsr[0]
        w_ = Wire(prog)
        gvp = w_.vpes(g)
        nb = prog.bodies.get("schema::Schema::name")
        named = set()
        if nb is not None:
            nvp = w_.vpes(nb)
            for s_, reg in top_shapes(nvp, 1):
                if any(st["s"] == "assign" and st["rv"]["r"] == "agg" and st["rv"].get("adt") == "std::option::Option" and st["rv"].get("variant") == "Some" for x in reg for st in nb.blocks[x]["stmts"]):
                    named.add(nvp.shape_name(s_, 1).split("(")[0])
        rep.ob("C20.R6", "Schema::name() knows the named shapes", {"Record", "Enum", "Fixed", "Duration", "Decimal", "Uuid"} <= named, "named shapes found: %s" % sorted(named), nb.loc() if nb else "")
        n6 = 0
        for s_, reg in top_shapes(gvp, 1):
            S_ = gvp.shape_name(s_, 1).split("(")[0]
            refs = any(st["s"] == "assign" and st["rv"]["r"] == "agg" and st["rv"].get("variant") == "Ref" for x in reg for st in g.blocks[x]["stmts"])
            if S_ in named:
                n6 += 1
                rep.ob("C20.R6", "an on-demand input of shape %s is answered with a reference" % S_, refs,
                       "the referring schema gets a copy of the whole definition when the input is parsed on demand and a reference when it was parsed before: the result depends on the order of the inputs (and the name is defined twice)", g.loc())
        rep.floor("C20.R6", "named shapes", n6, 6)

    # ------------------------------------------------------------ R7 what a reference can resolve to does not depend on what was parsed before
    rep.rule("C20.R7", "the set of names a reference can resolve to is the same whichever input is parsed first: no name becomes referable only as a side effect of parsing another input")
    rps = prog.bodies.get(P + "register_parsed_schema")
    fsr = prog.bodies.get(P + "fetch_schema_ref")
    if rps is None or fsr is None:
        rep.anchor_error("C20.R7", P + "register_parsed_schema / fetch_schema_ref")
    else:
        fam_r = prog.with_closures(rps)
        alias_ins = [(bb, bi) for bb in fam_r if bb.kind == "Closure" for bi, t in calls_named(bb, "std::collections::HashMap::<K, V, S, A>::insert")]
        rep.ob("C20.R7", "aliases are not entered into the table references are looked up in", not alias_ins,
               "an alias of an input becomes a referable name once that input has been parsed: a reference by alias from another input resolves or fails depending on the order of the inputs", alias_ins[0][0].loc(alias_ins[0][1]) if alias_ins else rps.loc())
        # nested definitions: registered when their enclosing input is parsed; an unparsed name is only looked for among the inputs' own names
        nested_reg = [b.path for k, b in prog.bodies.items() if b.crate == "apache_avro" and b.path in (P + "parse_record", P + "parse_enum", P + "parse_fixed") and calls_named(b, P + "register_parsed_schema")]
        fallbacks = sorted(set(fsr.opdesc(t["args"][0]) for bi, t in fsr.calls() if callee_names(t["func"])[0].startswith("std::collections::HashMap::") and callee_names(t["func"])[0].split("::")[-1] in ("remove", "get", "contains_key", "remove_entry") and t["args"]))
        pre_pass = [x for x in fallbacks if x not in ("self.parsed_schemas", "self.resolving_schemas", "self.input_schemas")]
        rep.ob("C20.R7", "a definition nested in one input is referable from another input whatever the order", not nested_reg or bool(pre_pass),
               "nested definitions are registered while their enclosing input is parsed (%s); a name that is not registered yet is only searched among the inputs' own names (%s): a reference to a type defined inside another input resolves only when that input comes first" % (", ".join(x.split("::")[-1] for x in nested_reg), ", ".join(fallbacks)), fsr.loc())
    rfp = prog.bodies.get("schema::record::field::RecordField::parse")
    if rfp is None:
        rep.anchor_error("C20.R7", "RecordField::parse")
    else:
        partial = [bi for bi, t in calls_named(rfp, P + "get_parsed_schemas")]
        rd = calls_named(rfp, "schema::record::field::RecordField::resolve_default_value")
        rep.ob("C20.R7", "field defaults are checked against the complete set of definitions, not against what has been parsed so far", not (partial and rd),
               "a default is resolved while the list is still being parsed (RecordField::parse hands resolve_default_value the parser's partial table): two inputs that refer to each other and carry record defaults are accepted in one order and rejected in the other", rfp.loc(rd[0][0]) if rd else rfp.loc())

    # ------------------------------------------------------------ R2
    for fn in ("schema::Schema::parse_list", "schema::Schema::parse_str_with_list"):
        b = get(prog, rep, "C20.R2", fn)
        if b is None:
            continue
        short = fn.split("::")[-1]
        ins = [(bi, t) for bi, t in calls_named(b, INS) if "input_schemas" in b.opdesc(t["args"][0])]
        pu = [(bi, t) for bi, t in calls_named(b, "std::vec::Vec::<T, A>::push") if "input_order" in b.opdesc(t["args"][0])]
        ok = len(ins) == 1 and len(pu) == 1
        if not rep.ob("C20.R2", "%s: one insert into input_schemas and one push to input_order" % short, ok, "insert=%d push=%d" % (len(ins), len(pu)), b.loc()):
            continue
        ibi, it = ins[0]
        sw = option_switch(b, it["dest"]["l"])
        good = False
        why = "the previous value returned by input_schemas.insert is not tested"
        if sw:
            reg = edge_only_region(b, sw[0], sw[2])
            if only_err(b, reg):
                good = b.dominates(sw[1], pu[0][0]) and pu[0][0] not in reg
                why = "input_order.push is not on the no-collision edge"
            else:
                why = "the `Some(previous)` edge does not lead to Err only"
        rep.ob("C20.R2", "%s: a second input with the same full name is rejected (NameCollision) before parsing" % short, good, why, b.loc(ibi))
        rep.ob("C20.R2", "%s: insert and push happen in the same input loop" % short, b.in_loop(ibi) and b.in_loop(pu[0][0]), "", b.loc())
        # key inserted and name pushed are the same Name (clone of one local)
        k = b.call_result_of(it["args"][1])
        r1 = b.resolve_operand(k[1]["args"][0]) if k and callee_names(k[1]["func"])[0].endswith("Clone::clone") else b.resolve_operand(it["args"][1])
        r2 = b.resolve_operand(pu[0][1]["args"][1])
        rep.ob("C20.R2", "%s: the name pushed to input_order is the key inserted" % short, bool(r1 and r2 and r1[0] == r2[0]), "", b.loc())
        np_ = calls_named(b, "schema::name::Name::parse")
        rep.ob("C20.R2", "%s: the key is the parsed full name of the input" % short, len(np_) == 1 and b.dominates(np_[0][0], ibi), "", b.loc())
        newp = calls_named(b, P + "new")
        okn = False
        if len(newp) == 1:
            a = [b.opdesc(x) for x in newp[0][1]["args"]]
            okn = a[0].endswith("input_schemas") and a[1].endswith("input_order")
        rep.ob("C20.R2", "%s: Parser::new receives input_schemas and input_order" % short, okn, "", b.loc())

    # ------------------------------------------------------------ R5 sibling agreement on how an input is parsed
    rep.rule("C20.R5", "every input schema is parsed the same way whichever path reaches it first (no enclosing namespace), and all inputs are registered before the main schema of parse_str_with_list is parsed")
    n5 = 0
    for k in sorted(roots_for_inputs(prog)):
        b = prog.bodies[k]
        rm = [(bi, t) for bi, t in calls_named(b, "std::collections::HashMap::<K, V, S, A>::remove", "std::collections::HashMap::<K, V, S, A>::remove_entry") if "input_schemas" in b.opdesc(t["args"][0])]
        if not rm:
            continue
        for pbi, pt in calls_named(b, P + "parse"):
            if not any(b.dominates(r[0], pbi) for r in rm):
                continue
            n5 += 1
            ns = pt["args"][2]
            sd = b.single_def(op_local(ns)) if op_local(ns) is not None else None
            is_none = bool(sd and sd[2] == "assign" and sd[3]["r"] == "agg" and sd[3].get("adt") == "std::option::Option" and sd[3].get("variant") == "None")
            rep.ob("C20.R5", "%s parses the input it took from input_schemas with no enclosing namespace" % b.path, is_none,
                   "an input schema parsed on demand would inherit the referrer's namespace: its full names then depend on which schema (hash order) reaches it first", b.loc(pbi))
    rep.floor("C20.R5", "sites that parse an input taken from input_schemas", n5, 2)
    wl = prog.bodies.get("schema::Schema::parse_str_with_list")
    if wl is not None:
        pis = calls_named(wl, P + "parse_input_schemas")
        pm = calls_named(wl, P + "parse")
        rep.ob("C20.R5", "parse_str_with_list registers every input before it parses the main schema", len(pis) == 1 and len(pm) == 1 and wl.dominates(pis[0][0], pm[0][0]) and
               len(shape_ok_gate(wl, pis[0][0], pm[0][0])) == 1,
               "the main schema could only refer to top-level names of the inputs, not to types nested in them", wl.loc())

    # ------------------------------------------------------------ R3
    roots = [k for k in prog.bodies if k.startswith(P) or k in ("schema::Schema::parse_list", "schema::Schema::parse_str_with_list")]
    n_sites = 0
    for k in sorted(roots):
        b = prog.bodies[k]
        for bi, t in calls_named(b, INS):
            ga = t["func"].get("ga") or []
            if ga[:2] != ["schema::name::Name", "schema::Schema"]:
                continue
            tab = b.opdesc(t["args"][0])
            if "resolving_schemas" in tab:
                continue  # in-progress markers, removed when the definition completes; not the table of definitions
            n_sites += 1
            owner = b.path if b.kind != "Closure" else (b.parent + " (alias closure)")
            sw = option_switch(b, t["dest"]["l"])
            tested = sw is not None
            guarded = False
            for cbi, ct in calls_named(b, "std::collections::HashMap::<K, V, S, A>::contains_key"):
                ka, kb = b.resolve_operand(ct["args"][1]), b.resolve_operand(t["args"][1])
                kc = b.call_result_of(t["args"][1])
                if kc and callee_names(kc[1]["func"])[0].endswith("Clone::clone"):
                    kb = b.resolve_operand(kc[1]["args"][0])
                same_key = bool(ka and kb and ka[0] == kb[0])
                if b.opdesc(ct["args"][0]) == b.opdesc(t["args"][0]) and b.dominates(cbi, bi) and same_key:
                    d = ct["dest"]["l"]
                    for sbi in range(b.n):
                        tt = b.blocks[sbi]["term"]
                        if tt["t"] == "switch" and op_local(tt["discr"]) == d:
                            f = dict(tt["targets"]).get(0)
                            if f is not None and b.dominates(f, bi) and edge_only_region(b, sbi, f) is not None:
                                guarded = True
            rep.ob("C20.R3", "%s: insert into the name table is checked" % owner, tested or guarded,
                   "the previous definition under this full name is silently replaced: a name defined twice (nested + top level, or twice nested) is accepted and the surviving definition depends on the hash-seeded parse order",
                   b.loc(bi))
    rep.analysed["inserts into the parser's definition table"] = n_sites
    rep.floor("C20.R3", "definition-table insert sites", n_sites, 4)

    # ------------------------------------------------------------ R4
    with open(os.path.join(common.VERIF, "rules", "tables", "c20_hash_iteration.toml"), "rb") as fh:
        allowed = dict((e["site"], e) for e in tomllib.load(fh).get("site", []))
    slice_ = prog.reach([k for k in ("schema::Schema::parse_list", "schema::Schema::parse_str_with_list", "schema::Schema::parse_str", "schema::Schema::parse") if k in prog.bodies])
    sl = [k for k in slice_ if k in prog.bodies and prog.bodies[k].crate == "apache_avro" and prog.bodies[k].path.startswith("schema::")]
    rep.analysed["functions in the parser slice"] = len(sl)
    rep.floor("C20.R4", "parser slice functions", len(sl), 40)
    seen_sites = set()
    ITER = ("::iter", "::keys", "::values", "::into_iter", "::drain", "::iter_mut", "::into_keys", "::into_values", "::values_mut", "::retain")
    for k in sorted(sl):
        b = prog.bodies[k]
        for bi, t in b.calls():
            nm = callee_names(t["func"])
            ga = str(t["func"].get("ga"))
            hit = None
            for n in nm:
                if ("collections::HashMap" in n or "collections::HashSet" in n or "hash_map::" in n or "hash_set::" in n) and n.endswith(ITER):
                    hit = n
            if nm and nm[0] == "std::iter::IntoIterator::into_iter" and ("HashMap<" in ga or "HashSet<" in ga) and "BTree" not in ga:
                hit = "into_iter over " + ga[:60]
            if not hit or "RandomState" not in ga and "HashMap<" not in ga and "HashSet<" not in ga and "collections::Hash" not in hit:
                continue
            owner = b.path if b.kind != "Closure" else b.parent + "::{closure}"
            site = "%s %s(%s)" % (owner, hit.split("::")[-1], b.opdesc(t["args"][0]) if t["args"] else "")
            seen_sites.add(site)
            rep.ob("C20.R4", "hash-order iteration %s is classified" % site, site in allowed,
                   "a new iteration over a hash-seeded collection in the parser: its consumer must be order-insensitive; classify it in rules/tables/c20_hash_iteration.toml", b.loc(bi))
            chk = allowed.get(site, {}).get("check")
            if chk == "sorted":
                srt = [sb for sb, stt in b.calls() if any(n.startswith("core::slice::<impl [T]>::sort") or n.startswith("std::slice::<impl [T]>::sort") for n in callee_names(stt["func"]))]
                rep.ob("C20.R4", "%s: items are sorted after the iteration" % site, any(b.dominates(bi, sb) for sb in srt), "the recorded reason (sorted before use) no longer holds", b.loc(bi))
            elif chk == "err_only":
                after = b.reachable(bi)
                rep.ob("C20.R4", "%s: reaches only Err exits" % site, not readset.ok_constructions(b, after), "the recorded reason (error text only) no longer holds", b.loc(bi))
    rep.analysed["hash-order iterations in the parser slice"] = len(seen_sites)
    for s in allowed:
        if s not in seen_sites:
            rep.notes.append("table entry no longer present: " + s)

    if collect_only:
        return rep
    rep.floor("C20", "obligations", len(rep.obligations), 22)
    rep.not_decided = ["confluence of the on-demand parse: that every drain order of input_schemas yields equal definitions (needs execution over permutations and hash seeds)",
                       "that values decode identically across orderings"]
    return common.finish(rep, level="other",
                         explanation="loop/def-use shape of Parser::parse_list, Option-edge regions on the input-table insert, previous-value/contains_key discipline on every insert into the definition table, inventory of hash-order iterations over the parser's call-graph slice",
                         assumptions=["Vec preserves insertion order", "HashMap iteration order is arbitrary (RandomState)"], evidence_dir=evidence_dir)
