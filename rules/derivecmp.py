"""C17 cross-derive comparison: a *shape description* of a type extracted from the MIR of the expanded
`AvroSchemaComponent::get_schema_in_ctxt` and one extracted from serde's expanded `Serialize::serialize`; the two must
describe the same thing.

Shape descriptions (plain tuples so that they compare with ==):
  ("record", name or None, [entry...])      entry = ("field", key, rust type) | ("flatten", rust type)
  ("enum", name, [symbol...])               unit-only enum written as an Avro enum
  ("union", [variant...])                   variant = (name, kind, [entry...]) with kind in unit | newtype | tuple | struct
  ("transparent", rust type)                the type's schema is another type's schema
Types are compared as strings after stripping leading `&`.
"""
from mir import callee_names
from wire import rpo
from shape import bool_switch

AV = "apache_avro::AvroSchemaComponent"


def _calls(b):
    for bi in rpo(b, set(range(b.n))):
        t = b.blocks[bi]["term"]
        if t["t"] == "call":
            nm = callee_names(t["func"])
            if nm:
                yield bi, t, nm


def strip_ref(ty):
    ty = (ty or "").strip()
    while ty.startswith("&"):
        ty = ty[1:].lstrip()
        if ty.startswith("mut "):
            ty = ty[4:]
    return ty


# ------------------------------------------------------------------------------------------------ Avro side
def avro_events(b):
    ev = []
    for bi in rpo(b, set(range(b.n))):
        for st in b.blocks[bi]["stmts"]:
            if st["s"] == "assign" and st["rv"]["r"] == "agg" and st["rv"].get("ak") == "adt" and str(st["rv"].get("adt", "")).endswith("::Schema") and st["rv"].get("variant") == "Null":
                ev.append(("null", None, bi))
        t = b.blocks[bi]["term"]
        if t["t"] != "call":
            continue
        nm = callee_names(t["func"])
        if not nm:
            continue
        n0 = nm[0]
        if n0.endswith("Name::new_with_enclosing_namespace") or n0.endswith("Name::new"):
            ev.append(("name", b.op_str(t["args"][0]), bi))
        elif n0 in ("std::string::ToString::to_string", "std::borrow::ToOwned::to_owned", "std::convert::From::from", "std::convert::Into::into") and t["args"]:
            lit = b.op_str(t["args"][0])
            if lit is not None:
                ev.append(("lit", lit, bi))
        elif n0 == AV + "::get_schema_in_ctxt":
            ev.append(("schema", (t["func"].get("ga") or [None])[0], bi, t["dest"]["l"] == 0 and not t["dest"]["p"]))
        elif n0 == AV + "::get_record_fields_in_ctxt":
            ev.append(("fields", (t["func"].get("ga") or [None])[0], bi, t["dest"]["l"] == 0 and not t["dest"]["p"]))
        elif n0.endswith("UnionSchemaBuilder::variant") or n0.endswith("UnionSchemaBuilder::variant_ignore_duplicates"):
            if len(t["args"]) > 1:
                v = (b.op_const(t["args"][1]) or {}).get("variant")
                if v and v[1] == "Null":
                    ev.append(("null", None, bi))
            ev.append(("variant", None, bi))
        elif n0.startswith("std::collections::HashSet") and n0.endswith("::contains"):
            sw = bool_switch(b, t["dest"]["l"]) if not t["dest"]["p"] else None
            ev.append(("guard", sw[1] if sw else None, bi))
    return ev


def _entries(chunk):
    """field entries of one record from its events: a field is the first literal of a group that ends with a schema call;
    literals that are not followed by a schema (aliases, docs, attribute keys) are dropped; `fields` events are flattens"""
    out = []
    group = []
    for e in chunk:
        if e[0] == "lit":
            group.append(e[1])
        elif e[0] == "schema":
            if group:
                out.append(("field", group[0], strip_ref(e[1])))
            group = []
        elif e[0] == "fields":
            out.append(("flatten", strip_ref(e[1])))
            group = []
        elif e[0] == "name":
            group = []
    return out


def avro_shape(gs, builds_enum_symbols=None):
    ev = avro_events(gs)
    # the name that is looked up in `named_schemas` (dedupe guard) around the whole definition is the type's own name; guards
    # inside a union belong to the records of single variants
    own = None
    vblocks = [e[2] for e in ev if e[0] == "variant"]
    for i, e in enumerate(ev):
        if e[0] == "guard" and i > 0 and ev[i - 1][0] == "name":
            outer = (not vblocks) or (e[1] is not None and all(gs.dominates(e[1], vb) for vb in vblocks))
            if outer:
                own = ev[i - 1][1]
                ev = ev[:i - 1] + ev[i + 1:]
            break
    ev = [e for e in ev if e[0] != "guard"]
    kinds = [e[0] for e in ev]
    if "variant" in kinds:
        variants = []
        chunk = []
        for e in ev:
            if e[0] == "variant":
                names = [x[1] for x in chunk if x[0] == "name"]
                ents = _entries(chunk)
                ck = [x[0] for x in chunk]
                if ck.count("schema") == 1 and "lit" not in ck and "name" not in ck:
                    variants.append(("transparent", strip_ref([x for x in chunk if x[0] == "schema"][0][1])))
                elif "null" in ck and "schema" not in ck and "lit" not in ck and "name" not in ck:
                    variants.append(("null",))
                else:
                    variants.append(("record", names[-1] if names else None, ents))
                chunk = []
            else:
                chunk.append(e)
        return ("union", own, variants)
    if own is None and "name" not in kinds:
        deleg = [e for e in ev if e[0] == "schema" and e[3]]
        if len(deleg) == 1 and len([e for e in ev if e[0] == "schema"]) == 1:
            return ("transparent", strip_ref(deleg[0][1]))
        return ("unknown", kinds)
    name = own if own is not None else [e[1] for e in ev if e[0] == "name"][0]
    ents = _entries(ev)
    if not ents:
        # no field has a schema: an Avro enum (symbols are bare literals) or an empty record
        syms = [e[1] for e in ev if e[0] == "lit"]
        return ("enum_or_empty", name, syms)
    return ("record", name, ents)


# ------------------------------------------------------------------------------------------------ serde side
def serde_shape(ser):
    calls = list(_calls(ser))
    sname = None
    entries = []
    variants = {}   # idx -> [name, kind, entries, start block]
    transparent = None
    has_struct = False
    for bi, t, nm in calls:
        n0 = nm[0]
        short = n0.split("::")[-1]
        ga = t["func"].get("ga") or []
        if n0.endswith("Serializer::serialize_struct"):
            sname = ser.op_str(t["args"][1])
            has_struct = True
        elif n0.endswith("Serializer::serialize_map"):
            has_struct = True
        elif n0.endswith("Serializer::serialize_tuple_struct") or n0.endswith("Serializer::serialize_newtype_struct"):
            sname = ser.op_str(t["args"][1])
            has_struct = True
            if short == "serialize_newtype_struct":
                entries.append(("field", "field_0", strip_ref(ga[1] if len(ga) > 1 else None)))
        elif n0.endswith("SerializeStruct::serialize_field"):
            entries.append(("field", ser.op_str(t["args"][1]), strip_ref(ga[1] if len(ga) > 1 else None), bi))
        elif n0.endswith("SerializeStruct::skip_field"):
            entries.append(("skip", ser.op_str(t["args"][1]), None, bi))
        elif n0.endswith("SerializeMap::serialize_entry"):
            # ga = [Self, K, V]
            entries.append(("field", ser.op_str(t["args"][1]), strip_ref(ga[2] if len(ga) > 2 else None), bi))
        elif n0.endswith("SerializeTupleStruct::serialize_field"):
            k = len([e for e in entries if e[0] == "field"])
            entries.append(("field", "field_%d" % k, strip_ref(ga[1] if len(ga) > 1 else None), bi))
        elif n0 == "serde::Serialize::serialize" or n0.endswith("::Serialize::serialize"):
            # flatten: Serialize::serialize(&&T, FlatMapSerializer(..)); transparent: Serialize::serialize(&T, serializer) as the result
            aty = t.get("argtys", ["", ""])
            if len(aty) > 1 and "FlatMapSerializer" in aty[1]:
                entries.append(("flatten", strip_ref(ga[0] if ga else None), None, bi))
            elif t["dest"]["l"] == 0 and not t["dest"]["p"]:
                transparent = strip_ref(ga[0] if ga else None)
        elif short in ("serialize_unit_variant", "serialize_newtype_variant", "serialize_tuple_variant", "serialize_struct_variant") and "Serializer" in n0:
            sname = ser.op_str(t["args"][1])
            idx = t["args"][2].get("int")
            vname = ser.op_str(t["args"][3])
            kind = short[len("serialize_"):-len("_variant")]
            ents = []
            if kind == "newtype":
                ents.append(("field", "field_0", strip_ref(ga[1] if len(ga) > 1 else None)))
            variants[idx] = [vname, kind, ents, bi]
        elif n0.endswith("SerializeTupleVariant::serialize_field") or n0.endswith("SerializeStructVariant::serialize_field") or n0.endswith("SerializeStructVariant::skip_field"):
            owner = None
            for idx, v in variants.items():
                if ser.dominates(v[3], bi) and (owner is None or ser.dominates(variants[owner][3], v[3])):
                    owner = idx
            if owner is not None:
                v = variants[owner]
                if "Tuple" in n0:
                    v[2].append(("field", "field_%d" % len(v[2]), strip_ref(ga[1] if len(ga) > 1 else None)))
                elif short == "serialize_field":
                    v[2].append(("field", ser.op_str(t["args"][1]), strip_ref(ga[1] if len(ga) > 1 else None)))
    if not variants:
        un = _untagged_variants(ser)
        if un is not None:
            return ("variants", sname, [un[i] for i in sorted(un)], sorted(un))
    if variants:
        return ("variants", sname, [(variants[i][0], variants[i][1], variants[i][2]) for i in sorted(variants)], sorted(variants))
    if has_struct:
        # a field under skip_serializing_if appears twice (serialize_field on one edge, skip_field on the other): keep order, dedupe
        seen = []
        for e in entries:
            if e[0] == "flatten":
                seen.append(("flatten", e[1]))
                continue
            kind, k, ty = e[0], e[1], e[2]
            have = [i for i, x in enumerate(seen) if x[0] != "flatten" and x[1] == k]
            if not have:
                seen.append((kind, k, ty))
            elif kind == "field":
                seen[have[0]] = ("field", k, ty)
        return ("record", sname, seen)
    if transparent is not None:
        return ("transparent", transparent)
    return ("unknown", [nm[0] for _, _, nm in calls][:6])


def _untagged_variants(ser):
    """`#[serde(untagged)]` enums: one match arm per variant (switch on the discriminant of *self), each arm serializes the
    variant's content without a name; returns idx -> (None, kind, entries) or None when the body is not of that form"""
    sw = None
    for bi, si, st in ser.stmts():
        if st["s"] == "assign" and st["rv"]["r"] == "discr":
            r = ser.resolve_place(st["rv"]["pl"])
            if r[0] == 1 and not [p for p in r[1] if p not in ("*", "&")]:
                d = st["pl"]["l"]
                for sbi in range(ser.n):
                    t = ser.blocks[sbi]["term"]
                    if t["t"] == "switch" and t["discr"].get("k") in ("copy", "move") and t["discr"]["pl"]["l"] == d:
                        sw = (sbi, t)
    if sw is None:
        return None
    out = {}
    for val, tb in sw[1]["targets"] + ([[None, sw[1]["otherwise"]]] if sw[1].get("otherwise") is not None else []):
        arm = [x for x in range(ser.n) if ser.dominates(tb, x)]
        kind = None
        ents = []
        for bi in rpo(ser, set(arm)):
            t = ser.blocks[bi]["term"]
            if t["t"] != "call":
                continue
            nm = callee_names(t["func"])
            if not nm:
                continue
            n0 = nm[0]
            ga = t["func"].get("ga") or []
            if n0.endswith("::Serialize::serialize") and t["dest"]["l"] == 0 and not t["dest"]["p"]:
                kind = "newtype"
                ents = [("field", "field_0", strip_ref(ga[0] if ga else None))]
            elif n0.endswith("Serializer::serialize_struct"):
                kind = "struct"
            elif n0.endswith("SerializeStruct::serialize_field"):
                ents.append(("field", ser.op_str(t["args"][1]), strip_ref(ga[1] if len(ga) > 1 else None)))
            elif n0.endswith("Serializer::serialize_tuple"):
                kind = "tuple"
            elif n0.endswith("SerializeTuple::serialize_element"):
                ents.append(("field", "field_%d" % len(ents), strip_ref(ga[1] if len(ga) > 1 else None)))
            elif n0.endswith("Serializer::serialize_unit"):
                kind = "unit"
        if kind is not None:
            if val is None:
                # the otherwise edge is the last variant when the switch lists all others
                val = max([v for v, _ in sw[1]["targets"]] + [-1]) + 1
            out[val] = (None, kind, ents)
    return out or None


# ------------------------------------------------------------------------------------------------ comparison
def types_agree(a, s):
    return a is None or s is None or not a or not s or strip_ref(a) == strip_ref(s)


def compare(T, gs, ser, ob):
    """ob(instance, ok, detail) is called for every comparison; returns the number of names compared"""
    A = avro_shape(gs)
    S = serde_shape(ser)
    n = 0
    if S[0] == "transparent":
        ob("%s: a transparent type takes the schema of the type serde serializes in its place" % T, A[0] == "transparent" and types_agree(A[1], S[1]), "schema side %s, serde side %s" % (A, S))
        return 1
    if S[0] == "record":
        sents = [e for e in S[2] if e[0] != "skip" or True]
        always_skipped = [e[1] for e in S[2] if e[0] == "skip"]
        sents = [e for e in S[2] if e[0] != "skip"]
        if A[0] == "enum_or_empty":
            A = ("record", A[1], [])
        if A[0] != "record":
            ob("%s: a struct is described as a record" % T, False, "schema side %s" % (A,))
            return 0
        if S[1] is not None:
            ob("%s: schema name = serde name" % T, A[1] is not None and A[1].split(".")[-1] == S[1], "derived schema is named %r, serde calls the type %r" % (A[1], S[1]))
        an = [(e[0], e[1]) if e[0] == "field" else (e[0], strip_ref(e[1])) for e in A[2]]
        sn = [(e[0], e[1]) if e[0] == "field" else (e[0], strip_ref(e[1])) for e in sents]
        n += len(sn)
        ob("%s: record field names = serde field names, in order" % T, an == sn,
           "schema fields %s, serde fields %s: every value of the type fails to serialize under its own derived schema (or a field is silently defaulted)" % (an, sn))
        if an == sn:
            ok = all(e[0] != "field" or types_agree(e[2], s[2]) for e, s in zip(A[2], sents))
            ob("%s: each field's schema is derived from the type serde serializes" % T, ok, "schema field types %s, serde value types %s" % ([e[-1] for e in A[2]], [e[-1] for e in sents]))
        return n
    if S[0] == "variants":
        kinds = set(v[1] for v in S[2])
        if kinds == {"unit"} and A[0] == "enum_or_empty":
            want = [v[0] for v in S[2]]
            n += len(want)
            ob("%s: schema name = serde name" % T, A[1] is not None and A[1].split(".")[-1] == S[1], "derived schema is named %r, serde calls the type %r" % (A[1], S[1]))
            ob("%s: enum symbols = serde variant names, in order" % T, A[2] == want, "schema symbols %s, serde variants %s" % (A[2], want))
            return n
        if A[0] != "union":
            ob("%s: an enum with data is described as a union" % T, False, "schema side %s" % (A[0],))
            return 0
        av = A[2]
        sv = S[2]
        ob("%s: one union branch per serialized serde variant" % T, len(av) == len(sv), "schema branches %s, serde variants %s" % (av, [(v[0], v[1]) for v in sv]))
        if len(av) == len(sv):
            for a, (sname, kind, sents) in zip(av, sv):
                n += 1 + len(sents)
                inst = "%s::%s (%s variant): the union branch at this position is what serde writes for the variant" % (T, sname, kind)
                if a[0] == "null":
                    ob(inst, kind == "unit", "schema branch is null, serde writes a %s variant" % kind)
                elif a[0] == "transparent":
                    ob(inst, kind == "newtype" and types_agree(a[1], sents[0][2]), "schema branch is the schema of %s, serde writes %s %s" % (a[1], kind, sents))
                else:
                    an = [(e[0], e[1]) for e in a[2]]
                    sn = [(e[0], e[1]) for e in sents]
                    ob(inst, (sname is None or a[1] == sname) and an == sn and all(types_agree(e[2], s_[2]) for e, s_ in zip(a[2], sents)),
                       "schema branch record %r with fields %s, serde variant %r writes %s" % (a[1], a[2], sname, sents))
        return n
    ob("%s: serde's expansion is understood" % T, False, "serde side %s" % (S,))
    return 0
