"""shared by C01/C02/C06/C07/C16: decoder, encoder and validator shape tables extracted with analysis/wire.py"""
import os
import re
import tomllib
from mir import callee_names
from wire import Wire  # noqa: F401 (re-exported)
from vpes import top_shapes, pair_shapes
import common

_cache = {}


def spec():
    with open(os.path.join(common.VERIF, "rules", "tables", "spec_wire.toml"), "rb") as fh:
        return tomllib.load(fh)["shape"]


def norm(tok):
    """token + loop stars, RECUR arguments dropped"""
    k = tok.kind
    if k.startswith("RECUR"):
        k = "RECUR"
    return k + "*" * tok.loop


def seq(tokens, ok_only=True):
    return [norm(t) for t in tokens if t.ok or not ok_only]


STREAM = re.compile(r"^(INT|LONG|RAW:[^*]*|RAWPARTIAL:[^*]*|RECUR|BLOCKHDR)(\**)$")


def stream(seq_):
    """only the tokens that move bytes to/from the stream"""
    return [s for s in seq_ if STREAM.match(s)]


def conv(seq_):
    """conversion tokens (byte order, text form), as a sorted list; UTF8 is reader-only"""
    return sorted(s.rstrip("*") for s in seq_ if not STREAM.match(s) and not s.startswith("UTF8"))


def raw_compatible(a, b):
    """stream tokens agree: equal, or RAW:n vs RAW:VAR (a length fixed on one side, taken from the schema on the other)"""
    if a == b:
        return True
    ma, mb = re.match(r"^RAW:([^=*]*)(?:=[^*]*)?(\**)$", a), re.match(r"^RAW:([^=*]*)(?:=[^*]*)?(\**)$", b)
    if ma and mb and ma.group(2) == mb.group(2):
        return ma.group(1) == mb.group(1) or "VAR" in (ma.group(1), mb.group(1))
    return False


def streams_agree(e, d):
    return len(e) == len(d) and all(raw_compatible(x, y) for x, y in zip(e, d))


def paths_of(sm):
    """sorted list of the alternative token sequences of a summary's success paths (None = enumeration gave up)"""
    if sm.get("paths") is None:
        return None
    return sorted([list(p) for p in sm["paths"]])


def alts(row):
    return sorted([list(x) for x in row])


def refine(name, table_keys):
    """shape names of a table that a (possibly coarser or finer) shape name denotes"""
    keys = set(table_keys)
    if name in keys:
        return [name]
    fine = sorted(k for k in keys if k.startswith(name + "("))
    if fine:
        return fine
    base = name.split("(")[0]
    if base in keys:
        return [base]
    return []


def enc_for(T, v, shape):
    """encoder entries for value variant v under schema shape `shape` (the encoder may discriminate the schema
    more coarsely or more finely than the table that produced `shape`): list of (enc shape name, entry)"""
    keys = [k[1] for k in T["enc"] if k[0] == v]
    return [(n, T["enc"][(v, n)]) for n in refine(shape, keys)]


def val_for(T, v, shape):
    """validator entries for value variant v under schema shape `shape`: list of (shape name, entry)"""
    keys = [k[1] for k in T["val"] if k[0] == v]
    return [(n, T["val"][(v, n)]) for n in refine(shape, keys)]


def tables(prog):
    if id(prog) in _cache:
        return _cache[id(prog)]
    w = Wire(prog)
    out = {"wire": w}
    # ---- decoder: shape -> summary
    dec = prog.body("decode::decode_internal")
    vp = w.vpes(dec)
    droot = [r for r, a in vp.roots.items() if a == "schema::Schema"][0]
    dtab = {}
    for s, reg in top_shapes(vp, droot):
        name = vp.shape_name(s, droot)
        sm = w.summary(dec.key, s)
        dtab[name] = {"paths": paths_of(sm), "seq": seq(sm["tokens"]), "all": seq(sm["tokens"], ok_only=False), "tokens": sm["tokens"],
                      "values_ok": sorted(v for a, v, ok in sm["constructs"] if a == "types::Value" and ok),
                      "values_any": sorted(set(v for a, v, ok in sm["constructs"] if a == "types::Value")),
                      "exits": sm["exits"], "sigma": s}
    out["dec"] = dtab
    # ---- encoder: (value, shape) -> summary
    enc = prog.body("encode::encode_internal")
    vp = w.vpes(enc)
    vroot = [r for r, a in vp.roots.items() if a == "types::Value"][0]
    sroot = [r for r, a in vp.roots.items() if a == "schema::Schema"][0]
    etab = {}
    for s, reg in pair_shapes(vp, vroot, sroot):
        v, sc = vp.shape_name(s, vroot), vp.shape_name(s, sroot)
        sm = w.summary(enc.key, s)
        etab[(v, sc)] = {"paths": paths_of(sm), "seq": seq(sm["tokens"]), "tokens": sm["tokens"], "can_ok": sm["exits"]["can_ok"], "exits": sm["exits"], "sigma": s}
    out["enc"] = etab
    out["schema_shapes"] = sorted(dtab)
    out["value_variants"] = vp.variants_of("types::Value")
    # ---- validator: (value, shape) -> accept class
    val = prog.body("types::Value::validate_internal")
    vp = w.vpes(val)
    vroot = [r for r, a in vp.roots.items() if a == "types::Value"][0]
    sroot = [r for r, a in vp.roots.items() if a == "schema::Schema"][0]
    vtab = {}
    for s, reg in pair_shapes(vp, vroot, sroot):
        v, sc = vp.shape_name(s, vroot), vp.shape_name(s, sroot)
        none = some = deleg = False
        for bi in reg:
            for st in val.blocks[bi]["stmts"]:
                if st["s"] == "assign" and st["pl"]["l"] == 0 and not st["pl"]["p"] and st["rv"]["r"] == "agg" and st["rv"].get("adt") == "std::option::Option":
                    if st["rv"]["variant"] == "None":
                        none = True
                    else:
                        some = True
            t = val.blocks[bi]["term"]
            if t["t"] == "call" and t["dest"]["l"] == 0 and not t["dest"]["p"]:
                deleg = True
        cls = "never"
        if none and not some and not deleg:
            cls = "always"
        elif none or deleg:
            cls = "conditional"
        vtab[(v, sc)] = {"cls": cls, "region": reg, "sigma": s}
    out["val"] = vtab
    _cache[id(prog)] = out
    return out
