"""C14 — a truncated or marker-corrupted file yields only a true prefix, then an error.

Structural clauses decided:
 R1  block read order and marker gate (Block::read_block_next): count and size are read with the
     varint reader, payload with fill_buf (read_exact), the 16-byte marker with read_exact into a
     local buffer; a [u8;16] comparison of that buffer with self.marker exists, its 'differ' edge
     reaches no Ok and no decompress, and it dominates the decompress call and every Ok exit
     other than the clean end-of-file exit.
 R2  header (Block::read_header): the magic is read with read_exact first and compared before any
     other read; the differ edge is an Err; the marker is read with read_exact into self.marker.
 R3  latch (both Iterator::next impls of the container readers): the `errored` test dominates the
     read and its true edge returns without reading; the Err edge of the read sets errored=true.
 R4  clean end only on a block boundary: every Ok exit of read_block_next that is not dominated by
     the marker comparison lies on the `0 bytes` edge of a std::io::Read::read result that is the
     first read of the function (no other read call dominates it); together with C06.R1
     (no Ok on the Err edge of a read) this makes every other end of input an error.
"""
import facts as factsmod
from mir import Program, callee_names, op_local
import common
import readset

RB = "reader::block::Block::<'r, R>::read_block_next"
RH = "reader::block::Block::<'r, R>::read_header"


def find_calls(b, pred):
    return [(bi, t) for bi, t in b.calls() if pred(callee_names(t["func"]), t)]


def name_is(*suffixes):
    def f(names, t):
        return any(n == s or n.endswith("::" + s) for n in names for s in suffixes)
    return f


def bool_switch_edges(b, call_bi, call_t):
    """for a call returning bool: find the switch on its dest; return (switch block, true target, false target)"""
    d = call_t["dest"]["l"]
    for bi in range(b.n):
        t = b.blocks[bi]["term"]
        if t["t"] == "switch" and op_local(t["discr"]) == d:
            tg = dict(t["targets"])
            f_t = tg.get(0, None)
            t_t = t["otherwise"] if 0 in tg else tg.get(1)
            if f_t is None:
                f_t = t["otherwise"]
            return bi, t_t, f_t
    return None


def region_has_ok(b, region):
    return bool(readset.ok_constructions(b, region))


def rule_r1_r4(prog, rep):
    try:
        b = prog.body(RB)
    except KeyError as e:
        rep.anchor_error("C14.R1", str(e))
        return
    readfns = readset.read_functions(prog)
    self_marker = "self.marker"
    # the comparison
    cmps = []
    for bi, t in b.calls():
        names = callee_names(t["func"])
        if names and names[0] in ("std::cmp::PartialEq::ne", "std::cmp::PartialEq::eq") and len(t["args"]) == 2:
            ds = [b.opdesc(a) for a in t["args"]]
            tys = t.get("argtys", [])
            if self_marker in ds and all("[u8; 16]" in x for x in tys):
                cmps.append((bi, t, names[0].endswith("::ne")))
    if not rep.ob("C14.R1", "read_block_next compares a local [u8;16] with self.marker", len(cmps) >= 1,
                  "no [u8;16] comparison against self.marker found", b.loc()):
        return
    cbi, ct, is_ne = cmps[0]
    other = [a for a in ct["args"] if b.opdesc(a) != self_marker][0]
    other_desc = b.opdesc(other)
    sw = bool_switch_edges(b, cbi, ct)
    if not rep.ob("C14.R1", "marker comparison result is branched on", sw is not None, "comparison result unused", b.loc(cbi)):
        return
    swb, t_t, f_t = sw
    differ_t, same_t = (t_t, f_t) if is_ne else (f_t, t_t)
    dreg = readset.edge_region(b, swb, differ_t)
    decomp = find_calls(b, name_is("codec::Codec::decompress", "Codec::decompress"))
    rep.ob("C14.R1", "differ edge of the marker comparison reaches no Ok and no decompress",
           dreg is not None and not region_has_ok(b, dreg) and not any(bi in dreg for bi, _ in decomp)
           and not any(b.blocks[x]["term"]["t"] == "call" and b.blocks[x]["term"]["dest"]["l"] == 0 and not b.blocks[x]["term"]["dest"]["p"]
                       and "from_residual" not in "".join(callee_names(b.blocks[x]["term"]["func"])) for x in (dreg or [])),
           "a value can be delivered from the block although the trailing sync marker differs", b.loc(swb))
    # the differ region must construct an Err
    has_err = False
    for x in (dreg or []):
        for st in b.blocks[x]["stmts"]:
            if st["s"] == "assign" and st["rv"]["r"] == "agg" and st["rv"].get("adt") == "std::result::Result" and st["rv"].get("variant") == "Err":
                has_err = True
    rep.ob("C14.R1", "differ edge constructs an Err", has_err, "marker mismatch does not produce an error", b.loc(swb))
    rep.ob("C14.R1", "decompress is called and is dominated by the marker comparison",
           len(decomp) >= 1 and all(b.dominates(cbi, bi) and b.dominates(same_t, bi) for bi, _ in decomp),
           "payload is decompressed/used before the sync marker was checked", b.loc(decomp[0][0]) if decomp else b.loc())
    # read order: read_usize, read_usize, fill_buf, read_exact(marker) each dominating the next and the comparison
    ru = find_calls(b, name_is("util::read_usize"))
    fb = find_calls(b, name_is("fill_buf"))
    rx = [(bi, t) for bi, t in find_calls(b, name_is("std::io::Read::read_exact")) if len(t["args"]) == 2 and b.opdesc(t["args"][1]) == other_desc]
    ok_order = len(ru) == 2 and len(fb) == 1 and len(rx) == 1
    if ok_order:
        ru.sort(key=lambda x: len(b.dom[x[0]]))
        chain = [ru[0][0], ru[1][0], fb[0][0], rx[0][0], cbi]
        ok_order = all(b.dominates(chain[i], chain[i + 1]) for i in range(len(chain) - 1))
    rep.ob("C14.R1", "block is read in the order count, size, payload(fill_buf), marker(read_exact), compare",
           ok_order, "expected exactly: 2 read_usize, 1 fill_buf, 1 read_exact into the compared buffer, in dominance order; found %d/%d/%d" % (len(ru), len(fb), len(rx)), b.loc())
    # fill_buf's argument is the second read_usize's value and message_count gets the first
    if ok_order:
        a1 = fb[0][1]["args"][1]
        cr = b.call_result_of(a1)
        # through Try::branch
        ok_arg = False
        if cr:
            cb, ctm, _ = cr
            if "Try::branch" in "".join(callee_names(ctm["func"])):
                inner = b.call_result_of(ctm["args"][0])
                ok_arg = inner is not None and inner[0] == ru[1][0]
        rep.ob("C14.R1", "fill_buf is given the size read by the second read_usize", ok_arg, "payload size does not come from the size field", b.loc(fb[0][0]))
    # fill_buf reads with read_exact
    try:
        f = prog.body("reader::block::Block::<'r, R>::fill_buf")
        rxs = find_calls(f, name_is("std::io::Read::read_exact"))
        rds = find_calls(f, lambda n, t: bool(n) and n[0] in ("std::io::Read::read", "std::io::Read::read_to_end", "std::io::Read::read_buf"))
        rep.ob("C14.R1", "fill_buf reads the payload with read_exact into self.buf", len(rxs) == 1 and not rds and f.opdesc(rxs[0][1]["args"][1]) == "self.buf",
               "payload may be read short", f.loc())
    except KeyError as e:
        rep.anchor_error("C14.R1", str(e))

    # ---- R4: early Ok exits ----
    flows = readset.forward_taint_back(b)
    early = []
    for bi, si, st in b.stmts():
        if st["s"] == "assign" and st["rv"]["r"] == "agg" and st["rv"].get("adt") == "std::result::Result" and st["rv"].get("variant") == "Ok" and st["pl"]["l"] in flows:
            if not b.dominates(cbi, bi):
                early.append((bi, st))
    rep.analysed["read_block_next: Ok exits before the marker comparison"] = len(early)
    readcalls = [(bi, t) for bi, t in b.calls() if readset.is_read_call(t, readfns, prog)]
    for bi, st in early:
        ok = False
        why = "no dominating zero-length edge of a first Read::read"
        for rbi, rt in readcalls:
            names = callee_names(rt["func"])
            if names[0] != "std::io::Read::read":
                continue
            # first read: no other read call dominates it
            if any(b.dominates(obi, rbi) and obi != rbi for obi, _ in readcalls):
                why = "the Read::read is not the first read of the block"
                continue
            # find a switch on ((dest as Ok).0) with a 0 target whose edge region contains bi
            d = rt["dest"]["l"]
            for sbi in range(b.n):
                tt = b.blocks[sbi]["term"]
                if tt["t"] != "switch" or tt["discr"].get("k") not in ("copy", "move"):
                    continue
                root, projs = b.resolve_place(tt["discr"]["pl"])
                if root == d and [x for x in projs if x not in ("*", "&")] == ["as Ok", ".0"]:
                    z = dict(tt["targets"]).get(0)
                    reg = readset.edge_region(b, sbi, z)
                    if reg and bi in reg:
                        ok = True
        rep.ob("C14.R4", "read_block_next early Ok exit is the 0-bytes edge of the first Read::read", ok, why, b.loc(bi, st.get("ln")))
    rep.ob("C14.R4", "read_block_next has exactly one clean-end exit", len(early) == 1, "found %d Ok exits before the marker comparison" % len(early), b.loc())


def rule_r2(prog, rep):
    try:
        b = prog.body(RH)
    except KeyError as e:
        rep.anchor_error("C14.R2", str(e))
        return
    readfns = readset.read_functions(prog)
    readcalls = [(bi, t) for bi, t in b.calls() if readset.is_read_call(t, readfns, prog)]
    rx = find_calls(b, name_is("std::io::Read::read_exact"))
    first = [x for x in rx if b.op_root_ty(x[1]["args"][1]) == "[u8; 4]"]
    ok_first = len(first) == 1 and all(b.dominates(first[0][0], bi) for bi, _ in readcalls)
    rep.ob("C14.R2", "read_header reads a 4-byte magic with read_exact before any other read", ok_first, "", b.loc())
    # comparison against the magic constant
    magic = prog.const("writer::AVRO_OBJECT_HEADER").get("bytes")
    cm = []
    for bi, t in b.calls():
        names = callee_names(t["func"])
        if names and names[0] in ("std::cmp::PartialEq::ne", "std::cmp::PartialEq::eq") and all("[u8; 4]" in x for x in t["argtys"]):
            cm.append((bi, t, names[0].endswith("::ne")))
    if rep.ob("C14.R2", "read_header compares the magic", len(cm) == 1, "magic comparison not found", b.loc()) and first:
        cbi, ct, is_ne = cm[0]
        sw = bool_switch_edges(b, cbi, ct)
        swb, t_t, f_t = sw
        differ_t, same_t = (t_t, f_t) if is_ne else (f_t, t_t)
        reg = readset.edge_region(b, swb, differ_t)
        others = [bi for bi, _ in readcalls if bi != first[0][0]]
        rep.ob("C14.R2", "magic mismatch edge reaches no Ok and no further read",
               reg is not None and not region_has_ok(b, reg) and not any(o in reg for o in others), "", b.loc(swb))
        rep.ob("C14.R2", "every other read is dominated by the magic comparison (match edge)", all(b.dominates(same_t, o) for o in others), "", b.loc(swb))
        # the constant compared: literal array or promoted const with the magic bytes
        lits = []
        for bi, si, st in b.stmts():
            if st["s"] == "assign" and st["rv"]["r"] == "agg" and st["rv"].get("ak") == "array" and len(st["rv"]["ops"]) == 4:
                vals = [o.get("int") for o in st["rv"]["ops"]]
                lits.append(vals)
            if st["s"] == "assign" and st["rv"]["r"] == "use" and st["rv"]["o"].get("k") == "const" and st["rv"]["o"].get("bytes") and len(st["rv"]["o"]["bytes"]) == 4:
                lits.append(st["rv"]["o"]["bytes"])
        for bi, t in b.calls():
            for a in t["args"]:
                if a.get("k") == "const" and a.get("bytes") and len(a["bytes"]) == 4:
                    lits.append(a["bytes"])
        rep.ob("C14.R2", "the magic compared equals the writer's AVRO_OBJECT_HEADER (4F 62 6A 01)",
               magic == [0x4F, 0x62, 0x6A, 0x01] and magic in lits, "reader literals %s vs writer %s" % (lits, magic), b.loc(cbi))
    mk = [x for x in rx if b.opdesc(x[1]["args"][1]) == "self.marker"]
    rep.ob("C14.R2", "read_header reads the sync marker with read_exact into self.marker", len(mk) == 1, "", b.loc())
    # Block::new propagates read_header's error
    try:
        nb = prog.body("reader::block::Block::<'r, R>::new")
        rh = find_calls(nb, name_is("read_header"))
        ok = False
        if len(rh) == 1:
            d = rh[0][1]["dest"]["l"]
            ok = any("Try::branch" in "".join(callee_names(t["func"])) and op_local(t["args"][0]) == d for _, t in nb.calls())
        rep.ob("C14.R2", "Block::new calls read_header and propagates its error with `?`", ok, "", nb.loc())
    except KeyError as e:
        rep.anchor_error("C14.R2", str(e))


def rule_r3(prog, rep):
    its = [b for b in prog.by_crate["apache_avro"] if b.path.endswith("as std::iter::Iterator>::next") and b.path.startswith("<reader::")]
    rep.floor("C14.R3", "Iterator::next impls of container readers", len(its), 2)
    readfns = readset.read_functions(prog)
    for b in its:
        # errored test
        sws = []
        for bi in range(b.n):
            t = b.blocks[bi]["term"]
            if t["t"] == "switch" and t["discr"].get("k") in ("copy", "move") and b.pldesc(t["discr"]["pl"]).endswith(".errored"):
                sws.append(bi)
        # also `_x = copy self.errored; switch _x`
        reads = [(bi, t) for bi, t in b.calls() if readset.is_read_call(t, readfns, prog)]
        ok = len(sws) == 1 and len(reads) == 1
        inst = "%s" % b.path
        if not rep.ob("C14.R3", inst + " tests `errored` once and reads once", ok, "switches on errored: %d, read calls: %d" % (len(sws), len(reads)), b.loc()):
            continue
        sw = sws[0]
        t = b.blocks[sw]["term"]
        tg = dict(t["targets"])
        false_t = tg.get(0)
        true_t = t["otherwise"]
        rbi, rt = reads[0]
        treg = readset.edge_region(b, sw, true_t)
        rep.ob("C14.R3", inst + " errored==true edge returns without reading", treg is not None and rbi not in treg and b.dominates(false_t, rbi),
               "the reader keeps reading after an error was reported", b.loc(sw))
        # Err edge sets errored
        seeds, origin = readset.read_results(b, readfns, prog)
        edges = readset.err_edges(b, origin)
        good = False
        for (swb, ok_t, err_t, _) in edges:
            reg = readset.edge_region(b, swb, err_t)
            if reg is None:
                continue
            for x in reg:
                for st in b.blocks[x]["stmts"]:
                    if st["s"] == "assign" and b.pldesc(st["pl"]).endswith(".errored") and st["rv"]["r"] == "use" and st["rv"]["o"].get("int") == 1:
                        # must be on every path from err_t to return: x post-dominates err_t
                        if b.postdominates(x, err_t):
                            good = True
        rep.ob("C14.R3", inst + " sets errored=true on every path after a failed read", good, "an error does not latch: later blocks would still be delivered", b.loc(rbi))


def run(rep, tier="quick", replay=None, evidence_dir=None):
    prog = Program(factsmod.extract())
    rep.rule("C14.R1", "marker compared before any item is yielded; differ => Err; order count,size,payload,marker")
    rep.rule("C14.R2", "magic read_exact + compare first; marker read_exact")
    rep.rule("C14.R3", "iterator latches after the first error")
    rep.rule("C14.R4", "clean end only from the zero-length edge of the first read of a block")
    rule_r1_r4(prog, rep)
    rule_r2(prog, rep)
    rule_r3(prog, rep)
    # C06.R1 restricted to the container reader functions (the Err edge of a read never yields Ok)
    import c06
    c06.scan_ok_after_failed_read(prog, rep, "C14.R4", only=lambda b: b.path.startswith("reader::") or b.path.startswith("<reader::") or b.path.startswith("util::"))
    rep.floor("C14", "obligations", len(rep.obligations), 20)
    rep.not_decided = ["that exactly the complete blocks are delivered for concrete files (needs C03 + C01 at run time)"]
    return common.finish(rep, level="other",
                         explanation="dominance / edge-region queries on Block::read_block_next, Block::read_header and the two Iterator::next impls, plus the crate-wide 'no Ok on the Err edge of a read' scan restricted to reader/ and util",
                         assumptions=["std::io::Read::read_exact fails on short input", "array PartialEq compares all 16 bytes"],
                         evidence_dir=evidence_dir)
